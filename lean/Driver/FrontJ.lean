import Driver.Util
import Tx3Model.Front
import Tx3Model.Gen.Grammar

/-! Judges for the front-end probes (C12, C13, C19): the real pest pair tree against the PEG engine
running the translated grammar; panics and timeouts; where diagnostics point. -/

open Lean Tx3 Tx3.Peg

namespace Driver.FrontJ

mutual
partial def sexpr : PTree → String
  | .node r a b cs => "(" ++ r ++ " " ++ toString a ++ " " ++ toString b ++ sexprL cs ++ ")"
partial def sexprL : List PTree → String
  | [] => ""
  | t :: ts => " " ++ sexpr t ++ sexprL ts
end

def topLevel (ts : List PTree) : String := String.join (ts.map sexpr)

partial def rulesOf (t : PTree) (acc : List String) : List String :=
  let acc := if acc.contains t.rule then acc else t.rule :: acc
  t.children.foldl (fun a c => rulesOf c a) acc

def isBoundary (b : ByteArray) (p : Nat) : Bool :=
  p == b.size || (p < b.size && (b.get! p &&& 0xC0) != 0x80)

def sliceBytes (b : ByteArray) (a e : Nat) : Option String := String.fromUTF8? (b.extract a e)

structure SpanJ where
  dummy : Bool
  start : Nat
  stop : Nat

def spanOf (j : Json) : R SpanJ := do
  return { dummy := ← bool (← field j "dummy"), start := ← nat (← field j "start"), stop := ← nat (← field j "end") }

def within (src : ByteArray) (s : SpanJ) : Bool :=
  s.start ≤ s.stop && s.stop ≤ src.size && isBoundary src s.start && isBoundary src s.stop

def hasKey (j : Json) (k : String) : Bool := !(isNull (fieldD j k))

/-- The display span the diagnostic hands out (`labels()`), against the model's conversion of the span and against
the text the diagnostic carries. Returns (spec failures, model disagreements). -/
def labelClauses (what : String) (e : Json) (sp : SpanJ) (srcSize : Nat) : List String × List String :=
  match fieldD e "label" with
  | .null => ([], [])
  | l =>
    if !(isNull (fieldD l "panic")) then ([what ++ ":display-span-cannot-be-built"], []) else
    match (fieldD l "offset").getNat?, (fieldD l "len").getNat? with
    | .ok off, .ok len =>
      let s1 := if off + len > srcSize then [what ++ ":display-span-outside-text"] else []
      let s2 := if off != sp.start || off + len != sp.stop then [what ++ ":display-span-is-not-the-span"] else []
      let s3 := match fieldD l "readable" with | .bool false => [what ++ ":display-span-unreadable"] | _ => []
      let c := match Tx3.Front.sourceSpan { dummy := sp.dummy, start := sp.start, stop := sp.stop } with
        | .ok (o, n) => if o != off || n != len then [what ++ ":source-span"] else []
        | _ => [what ++ ":source-span-model-panics"]
      (s1 ++ s2 ++ s3, c)
    | _, _ => ([], [])

/-- The first node with rule `r`, depth first. -/
partial def findRule (r : String) : List PTree → Option PTree
  | [] => none
  | t :: ts =>
    if t.rule == r then some t
    else match findRule r t.children with
      | some x => some x
      | none => findRule r ts

def compareTree (input : String) (obsTree : Json) : List String × List String × Option (List PTree) :=
  -- (corr, spec, model tree)
  match Gen.parseTx3 Gen.programRule input with
  | .fuelOut => (["model-out-of-fuel"], [], none)
  | .ok _ ts =>
    if hasKey obsTree "ok" then
      match (fieldD obsTree "ok").getStr? with
      | .ok s => if s == topLevel ts then ([], [], some ts) else (["pair-tree-differs"], [], some ts)
      | .error _ => (["bad-observation"], [], some ts)
    else if hasKey obsTree "err" then (["model-accepts-impl-rejects"], [], some ts)
    else ([], ["no-panic:pest"], some ts)
  | .fail =>
    if hasKey obsTree "ok" then (["model-rejects-impl-accepts"], [], none)
    else if hasKey obsTree "err" then ([], [], none)
    else ([], ["no-panic:pest"], none)

def judgeLiteral (j : Json) : R Verdict := do
  let i ← nat (← field j "i")
  let input ← str (← field j "input")
  let kind ← str (← field j "kind")
  let obs ← field j "obs"
  let (corr0, spec0, tree) := compareTree input (fieldD obs "tree")
  let mut corr := corr0
  let mut spec := spec0
  let mut tags := ["literal", kind]
  let parse := fieldD obs "parse"
  if hasKey parse "panic" then spec := spec ++ ["no-panic:parse"]
  let chars := input.toList
  match tree with
  | none =>
    tags := tags ++ ["rejected"]
    if hasKey parse "ok" then corr := corr ++ ["literal:model-rejects"]
  | some ts =>
    match (findRule "signers_block" ts).bind (fun s => s.children.head?) with
    | some (.node "data_expr" _ _ [lit]) =>
      let text := Front.textOf chars lit
      tags := tags ++ ["rule:" ++ lit.rule]
      -- expected outcome of the builder
      let expected : Option (Except String Json) :=
        match lit.rule with
        | "number" => some (match Front.numberParse text with
            | .ok v => .ok (Json.mkObj [("Number", Json.num (JsonNumber.fromInt v))])
            | .err e => .error e | .panic e => .error ("panic:" ++ e))
        | "bool" => some (match Front.boolParse text with
            | .ok b => .ok (Json.mkObj [("Bool", Json.bool b)])
            | .err e => .error e | .panic e => .error ("panic:" ++ e))
        | "string" => some (.ok (Json.mkObj [("String", Json.mkObj [("value", Json.str (String.ofList (Front.stringParse text)))])]))
        | "hex_string" => some (.ok (Json.mkObj [("HexString", Json.mkObj [("value", Json.str (String.ofList (Front.hexStringParse text)))])]))
        | "identifier" => some (.ok (Json.mkObj [("Identifier", Json.mkObj [("value", Json.str (String.ofList text))])]))
        | "utxo_ref" => some (match Front.utxoRefParse text with
            | .ok (txid, ix) => .ok (Json.mkObj [("UtxoRef", Json.mkObj [("txid", Json.arr (txid.map fun b => Json.num (JsonNumber.fromNat b.toNat)).toArray), ("index", Json.num (JsonNumber.fromNat ix))])])
            | .err e => .error e | .panic e => .error ("panic:" ++ e))
        | _ => none
      match expected with
      | none => tags := tags ++ ["other-literal"]
      | some (.ok ej) =>
        tags := tags ++ ["builds"]
        if hasKey parse "ok" then
          let got := fieldD parse "ok"
          -- compare the variant and its value fields; spans separately
          match ej with
          | .obj kvs =>
            for (variant, ev) in kvs.toList do
              let gv := fieldD got variant
              if isNull gv then corr := corr ++ ["literal:variant"]
              else
                match ev with
                | .obj fields =>
                  for (f, v) in fields.toList do
                    if (fieldD gv f).compress != v.compress then corr := corr ++ ["literal:" ++ f]
                  let sp ← spanOf (← field gv "span")
                  if sp.start != lit.start || sp.stop != lit.stop then corr := corr ++ ["literal:span"]
                | other => if gv.compress != other.compress then corr := corr ++ ["literal:value"]
          | _ => pure ()
        else corr := corr ++ ["literal:model-builds-impl-rejects"]
      | some (.error e) =>
        tags := tags ++ ["builder-error"]
        if hasKey parse "ok" then corr := corr ++ ["literal:model-rejects-impl-builds:" ++ e]
        else if hasKey parse "err" then
          -- `Error::at`: the whole input and the literal's span
          let pe := Front.errorAt chars lit
          let e ← field parse "err"
          let sp ← spanOf (← field e "span")
          if !(← bool (← field e "src_is_input")) then corr := corr ++ ["literal:error-src"]
          if sp.start != pe.span.start || sp.stop != pe.span.stop then corr := corr ++ ["literal:error-span"]
    | _ => tags := tags ++ ["compound"]
  return { i, corr, spec, nt := true, key := fnv input, tags }

def judge (prop : String) (j : Json) : R Verdict := do
  if (fieldD j "probe").compress == "\"literal\"" then return ← judgeLiteral j
  let i ← nat (← field j "i")
  let gen ← str (← field j "gen")
  let input ← str (← field j "input")
  let obs ← field j "obs"
  let mut corr : List String := []
  let mut spec : List String := []
  let mut tags : List String := [gen]
  let key := fnv input
  let cls := ((fieldD obs "class_tags").getArr?.toOption.getD #[]).toList.filterMap (·.getStr?.toOption)
  tags := tags ++ cls.map ("class:" ++ ·)
  if hasKey obs "abort" then
    if prop == "C12" then spec := spec ++ ["no-panic:abort"]
    return { i, corr, spec, nt := true, key, tags := tags ++ ["abort"] }
  if hasKey obs "timeout" then
    if prop == "C12" then spec := spec ++ ["terminates"]
    return { i, corr, spec, nt := true, key, tags := tags ++ ["timeout"] }
  let bytes := input.toUTF8
  let (corr0, spec0, tree) := compareTree input (fieldD obs "tree")
  corr := corr ++ corr0
  if prop == "C12" then spec := spec ++ spec0
  if let some ts := tree then
    if prop == "C12" then
      tags := tags ++ ((ts.foldl (fun a t => rulesOf t a) []).map ("rule:" ++ ·))
  let parse := fieldD obs "parse"
  let analyze := fieldD obs "analyze"
  if hasKey parse "panic" then
    tags := tags ++ ["parse-panic"]
    if prop == "C12" then spec := spec ++ ["no-panic:parse"]
  else if hasKey parse "err" then
    tags := tags ++ ["parse-error"]
    let e ← field parse "err"
    let sp ← spanOf (← field e "span")
    let same ← bool (← field e "src_is_input")
    if prop == "C19" then
      let srcStr := (fieldD e "src").getStr?.toOption.getD input
      let src := if same then bytes else srcStr.toUTF8
      if sp.dummy then spec := spec ++ ["parse-error:dummy-span"]
      else if !(within src sp) then spec := spec ++ ["parse-error:span-within-src"]
      else
        let (ls, lc) := labelClauses "parse-error" e sp src.size
        spec := spec ++ ls; corr := corr ++ lc
      -- the model: the diagnostic carries the whole input
      if !same then corr := corr ++ ["parse-error:src"]
      tags := tags ++ [if (input.toList.filter (· == '\n')).length > 1 then "multi-line" else "single-line"]
      tags := tags ++ [if bytes.size != input.length then "multi-byte" else "ascii"]
  else
    tags := tags ++ ["parses"]
    if hasKey analyze "panic" then
      tags := tags ++ ["analyze-panic"]
      if prop == "C12" then spec := spec ++ ["no-panic:analyze"]
    else
      let errs ← arr (← field analyze "errors")
      tags := tags ++ [if errs.isEmpty then "analysis-clean" else "analysis-errors"]
      if prop == "C19" then
        for e in errs do
          let sp ← spanOf (← field e "span")
          let kind ← str (← field e "kind")
          tags := tags ++ ["diag:" ++ kind ++ (if sp.dummy then ":dummy" else "")]
          if !sp.dummy then
            let (ls, lc) := labelClauses "analysis" e sp bytes.size
            spec := spec ++ ls; corr := corr ++ lc
            if !(within bytes sp) then spec := spec ++ ["analysis:span-within-input:" ++ kind]
            else if kind == "NotInScope" then
              let name ← str (← field e "name")
              if sliceBytes bytes sp.start sp.stop != some name then spec := spec ++ ["analysis:not-in-scope-text"]
      if prop == "C13" && errs.isEmpty then
        let lower := fieldD obs "lower"
        for l in ← arr lower do
          let r ← str (← field l "r")
          if r != "ok" then
            let cls := (r.splitOn "|").head!
            spec := spec ++ ["accepted-but-not-lowered:" ++ cls]
        let fac := (fieldD obs "facade").getStr?.toOption.getD ""
        if fac.startsWith "panic" then tags := tags ++ ["facade-panics"]
        if fac.startsWith "panic" && !(spec.any (·.startsWith "accepted-but-not-lowered")) then
          spec := spec ++ ["facade-panics"]
  return { i, corr, spec, nt := true, key, tags }

end Driver.FrontJ
