import Driver.Util
import Tx3Model.Assets

/-! C15 judge: model vs implementation (`corr`) and implementation vs the property (`spec`). -/

open Lean Tx3 Tx3.Assets

namespace Driver.C15

inductive VExpr where
  | empty
  | cls (c : AssetClass) (n : Int)
  | naked (n : Int)
  | named (nm : Bytes) (n : Int)
  | defined (p nm : Bytes) (n : Int)
  | asset (p nm : Option Bytes) (n : Int)
  | add (x y : VExpr)
  | sub (x y : VExpr)
  | neg (x : VExpr)

def parseClass (j : Json) : R AssetClass := do
  let k ← str (← field j "k")
  match k with
  | "naked" => pure .naked
  | "named" => do return .named (← hex (← field j "name"))
  | "defined" => do return .defined (← hex (← field j "policy")) (← hex (← field j "name"))
  | _ => throw "bad class"

partial def parseV (j : Json) : R VExpr := do
  let op ← str (← field j "op")
  match op with
  | "empty" => pure .empty
  | "class" => do return .cls (← parseClass (← field j "class")) (← int (← field j "n"))
  | "naked" => do return .naked (← int (← field j "n"))
  | "named" => do return .named (← hex (← field j "name")) (← int (← field j "n"))
  | "defined" => do
    return .defined (← hex (← field j "policy")) (← hex (← field j "name")) (← int (← field j "n"))
  | "asset" => do
    return .asset (← optHex (← field j "policy")) (← optHex (← field j "name")) (← int (← field j "n"))
  | "add" => do return .add (← parseV (← field j "x")) (← parseV (← field j "y"))
  | "sub" => do return .sub (← parseV (← field j "x")) (← parseV (← field j "y"))
  | "neg" => do return .neg (← parseV (← field j "x"))
  | _ => throw "bad op"

/-- Does every amount fit `i128`? -/
def fits (a : Assets) : Bool := a.all fun kv => inI128 kv.2

/-- Implementation model with the debug build's overflow panics: `none` = panic. -/
def evalM : VExpr → Option Assets
  | .empty => some Assets.empty
  | .cls c n => some (fromClassAndAmount c n)
  | .naked n => some (fromNakedAmount n)
  | .named nm n => some (fromNamedAsset nm n)
  | .defined p nm n => some (fromDefinedAsset p nm n)
  | .asset p nm n => some (fromAsset p nm n)
  | .add x y => do
    let a ← evalM x; let b ← evalM y
    let raw := addRaw a b
    if fits raw then some (retainNZ raw) else none
  | .sub x y => do
    let a ← evalM x; let b ← evalM y
    let raw := subRaw a b
    if fits raw then some (retainNZ raw) else none
  | .neg x => do
    let a ← evalM x
    let r := Assets.neg a
    if fits r then some r else none

/-- Canonical class of a constructor call, written from the documentation of the fall-throughs
(spec side; independent of the model's constructors). -/
def canonClass (p nm : Option Bytes) : AssetClass :=
  let p' := match p with | some [] => none | x => x
  match p', nm with
  | some pp, some n => .defined pp n
  | some pp, none => .defined pp []
  | none, some [] => .naked
  | none, some n => .named n
  | none, none => .naked

/-- Spec: the denotation of an op tree is plain integer arithmetic per asset class. -/
def den : VExpr → AssetClass → Int
  | .empty, _ => 0
  | .cls c n, k => if c = k then n else 0
  | .naked n, k => if k = .naked then n else 0
  | .named nm n, k => if canonClass none (some nm) = k then n else 0
  | .defined p nm n, k => if canonClass (some p) (some nm) = k then n else 0
  | .asset p nm n, k => if canonClass p nm = k then n else 0
  | .add x y, k => den x k + den y k
  | .sub x y, k => den x k - den y k
  | .neg x, k => - den x k

def classesOf : VExpr → List AssetClass
  | .empty => []
  | .cls c _ => [c]
  | .naked _ => [.naked]
  | .named nm _ => [canonClass none (some nm)]
  | .defined p nm _ => [canonClass (some p) (some nm)]
  | .asset p nm _ => [canonClass p nm]
  | .add x y => classesOf x ++ classesOf y
  | .sub x y => classesOf x ++ classesOf y
  | .neg x => classesOf x

def classRank : AssetClass → Nat
  | .naked => 0 | .named _ => 1 | .defined _ _ => 2

/-- Rust's derived `Ord` on `AssetClass`. -/
def classLe (a b : AssetClass) : Bool :=
  if classRank a != classRank b then classRank a < classRank b else
  match a, b with
  | .named x, .named y => bytesLe x y
  | .defined p x, .defined q y => if p = q then bytesLe x y else bytesLe p q
  | _, _ => true

def classJson : AssetClass → Json
  | .naked => Json.mkObj [("k", "naked")]
  | .named n => Json.mkObj [("k", "named"), ("name", jhex n)]
  | .defined p n => Json.mkObj [("k", "defined"), ("name", jhex n), ("policy", jhex p)]

def dump (a : Assets) : Json :=
  let sorted := sortBy (fun x y => classLe x.1 y.1) a
  .arr (sorted.map fun kv => Json.arr #[classJson kv.1, jint kv.2]).toArray

def parseDump (j : Json) : R Assets := do
  let items ← arr j
  items.mapM fun it => do
    let pr ← arr it
    match pr with
    | [c, n] => do return (← parseClass c, ← int n)
    | _ => throw "bad dump entry"

def same (a b : Json) : Bool := a.compress == b.compress

def judge (j : Json) : R Verdict := do
  let i ← nat (← field j "i")
  let gen ← str (← field j "gen")
  -- a - b = a + (-b) where the reducer meets values: whenever one side has a meaning, the other has the same
  if (fieldD j "probe").compress == "\"expr-law\"" then
    let obs ← field j "obs"
    let l := fieldD obs "sub"
    let r := fieldD obs "add_neg"
    let mut spec : List String := []
    if !(isNull (fieldD l "panic")) || !(isNull (fieldD r "panic")) then spec := spec ++ ["no-panic:expr-law"]
    else if (l.getObjVal? "ok").isOk || (r.getObjVal? "ok").isOk then
      if l.compress != r.compress then spec := spec ++ ["sub_is_add_neg:reduced-expressions"]
    -- the reducer's + on two asset lists is the + of the values, in either order
    let va := fieldD obs "value_add"
    if !(isNull va) then
      if (fieldD obs "add").compress != va.compress then spec := spec ++ ["add:reduced-expressions-vs-values"]
      if (fieldD obs "add_flipped").compress != va.compress then spec := spec ++ ["add_comm:reduced-expressions"]
    return { i, corr := [], spec, key := fnv ((fieldD j "a").compress ++ "-" ++ (fieldD j "b").compress), tags := [gen], nt := true }
  let ea ← parseV (← field j "a")
  let eb ← parseV (← field j "b")
  let ec ← parseV (← field j "c")
  let obs ← field j "obs"
  let cls := (classesOf ea ++ classesOf eb ++ classesOf ec ++ [AssetClass.naked]).eraseDups
  let key := fnv ((fieldD j "a").compress ++ (fieldD j "b").compress ++ (fieldD j "c").compress)
  let mut corr : List String := []
  let mut spec : List String := []
  let mut tags : List String := [gen]
  -- stage 1: the three values
  match evalM ea, evalM eb, evalM ec with
  | some a, some b, some c =>
    if !(isNull (fieldD obs "panic")) then
      -- implementation panicked although no amount leaves the i128 range
      return { i, corr := ["eval:unexpected-panic"], spec := ["no-panic-without-overflow"], key, tags }
    let chk (name : String) (m : Json) (corr : List String) : R (List String) := do
      let o ← field obs name
      pure (if same o m then corr else corr ++ [name])
    corr ← chk "a" (dump a) corr
    corr ← chk "b" (dump b) corr
    corr ← chk "c" (dump c) corr
    corr ← chk "eq_ab" (Json.bool (beq a b)) corr
    corr ← chk "ct_ab" (Json.bool (containsTotal a b)) corr
    corr ← chk "cs_ab" (Json.bool (containsSome a b)) corr
    corr ← chk "empty_a" (Json.bool (isEmpty a)) corr
    corr ← chk "eon_a" (Json.bool (isEmptyOrNegative a)) corr
    corr ← chk "naked_a" (Json.bool (isOnlyNaked a)) corr
    -- spec on the implementation's own observations
    let oa ← parseDump (← field obs "a")
    let ob ← parseDump (← field obs "b")
    if !(cls.all fun k => amt oa k = den ea k) then spec := spec ++ ["value:a"]
    if !(cls.all fun k => amt ob k = den eb k) then spec := spec ++ ["value:b"]
    let semEq := cls.all fun k => den ea k = den eb k
    let oeq ← bool (← field obs "eq_ab")
    if oeq != semEq then spec := spec ++ ["eq_semantic"]
    let nonneg := cls.all fun k => 0 ≤ den ea k ∧ 0 ≤ den eb k
    if nonneg then
      let oct ← bool (← field obs "ct_ab")
      let ge := cls.all fun k => den eb k ≤ den ea k
      if oct != ge then spec := spec ++ ["contains_order"]
      tags := tags ++ ["nonneg"]
    if semEq then tags := tags ++ ["semeq"]
    if (a.any fun kv => kv.2 = 0) || (b.any fun kv => kv.2 = 0) then tags := tags ++ ["zero-entry"]
    -- stage 2: laws
    let lawsJ := fieldD obs "laws"
    let addO := do
      let raw := addRaw a b; if fits raw then some (retainNZ raw) else none
    let subO := do
      let raw := subRaw a b; if fits raw then some (retainNZ raw) else none
    let lawsFit : Bool := Id.run do
      -- does any law computation leave the i128 range?
      let ok1 := (evalM (.add ea eb)).isSome && (evalM (.add eb ea)).isSome
      let ok2 := (evalM (.add (.add ea eb) ec)).isSome && (evalM (.add ea (.add eb ec))).isSome
      let ok3 := (evalM (.sub ea eb)).isSome && (evalM (.add ea (.neg eb))).isSome
      let ok4 := (evalM (.add (.sub ea eb) eb)).isSome && (evalM (.neg ea)).isSome
      return ok1 && ok2 && ok3 && ok4
    if isNull lawsJ then
      if lawsFit then
        corr := corr ++ ["laws:unexpected-panic"]
        spec := spec ++ ["no-panic-without-overflow"]
      else tags := tags ++ ["overflow"]
    else
      if !lawsFit then corr := corr ++ ["laws:missing-overflow-panic"]
      else
        match addO, subO with
        | some ab, some sb =>
          corr ← (do let o ← field lawsJ "add_ab"; pure (if same o (dump ab) then corr else corr ++ ["add_ab"]))
          corr ← (do let o ← field lawsJ "sub_ab"; pure (if same o (dump sb) then corr else corr ++ ["sub_ab"]))
          corr ← (do let o ← field lawsJ "neg_a"; pure (if same o (dump (Assets.neg a)) then corr else corr ++ ["neg_a"]))
          let rt := ofExprs (toExprs a)
          corr ← (do let o ← field lawsJ "rt_a"; pure (if same o (dump rt) then corr else corr ++ ["rt_a"]))
          -- spec: sums are pointwise, laws hold under the implementation's own `==`
          let oab ← parseDump (← field lawsJ "add_ab")
          if !(cls.all fun k => amt oab k = den ea k + den eb k) then spec := spec ++ ["add_pointwise"]
          let osb ← parseDump (← field lawsJ "sub_ab")
          if !(cls.all fun k => amt osb k = den ea k - den eb k) then spec := spec ++ ["sub_pointwise"]
          let ona ← parseDump (← field lawsJ "neg_a")
          if !(cls.all fun k => amt ona k = - den ea k) then spec := spec ++ ["neg_pointwise"]
          for law in ["comm", "assoc", "sub_neg", "cancel", "zero_immaterial"] do
            let v ← bool (← field lawsJ law)
            if !v then spec := spec ++ ["law:" ++ law]
          let proper := oa.all fun kv => decide kv.1.Proper
          if proper then
            let ort ← parseDump (← field lawsJ "rt_a")
            if !(cls.all fun k => amt ort k = den ea k) then spec := spec ++ ["exprs_roundtrip"]
            let rteq ← bool (← field lawsJ "rt_eq")
            if !rteq then spec := spec ++ ["exprs_roundtrip_eq"]
          else tags := tags ++ ["improper-class"]
        | _, _ => corr := corr ++ ["laws:model-overflow-mismatch"]
    let nt := (cls.any fun k => den ea k ≠ 0) && (cls.any fun k => den eb k ≠ 0)
    return { i, corr, spec, nt, key, tags }
  | _, _, _ =>
    -- the model says some intermediate amount leaves i128: the debug build must panic
    if isNull (fieldD obs "panic") then
      return { i, corr := ["eval:missing-overflow-panic"], key, tags := tags ++ ["overflow"] }
    else
      return { i, key, tags := tags ++ ["overflow"] }

end Driver.C15
