import Tx3Model.Basic

/-
L1 — `tx3-tir/src/model/assets.rs`.

`CanonicalAssets(HashMap<AssetClass, i128>)` is modelled as an association
list.  The `HashMap` invariant (one entry per key) is the separate predicate
`WF`; the hash order is *not* modelled: every observable function below is
defined through `get?`, `all`, `any`, which do not depend on the order of a
key-unique list (see `Tx3Proofs/Lemmas/Assets.lean`), and the one place where
the order escapes (`toExprs`, i.e. `From<CanonicalAssets> for Vec<AssetExpr>`)
is proved order-independent up to `≈`.

Amounts are unbounded `Int`; `i128` overflow is outside this layer (the
property quantifies over "amounts across the i128 range without overflow").
-/

namespace Tx3

inductive AssetClass where
  | naked
  | named (name : Bytes)
  | defined (policy name : Bytes)
  deriving DecidableEq, Repr

namespace AssetClass
def isNaked : AssetClass → Bool
  | naked => true
  | _ => false
def policy? : AssetClass → Option Bytes
  | defined p _ => some p
  | _ => none
def name? : AssetClass → Option Bytes
  | defined _ n => some n
  | named n => some n
  | naked => none
/-- Classes the `from_*` constructors can produce: no empty name on `named`,
no empty policy on `defined`. -/
def Proper : AssetClass → Prop
  | naked => True
  | named n => n ≠ []
  | defined p _ => p ≠ []
instance : DecidablePred Proper := fun c => by
  cases c <;> simp only [Proper] <;> infer_instance
end AssetClass

abbrev Assets := List (AssetClass × Int)

namespace Assets

/-- `HashMap::get`. -/
def get? : Assets → AssetClass → Option Int
  | [], _ => none
  | (k, v) :: rest, c => if k = c then some v else get? rest c

/-- Amount with default 0: the *meaning* of a value. -/
def amt (a : Assets) (c : AssetClass) : Int := (get? a c).getD 0

def keys (a : Assets) : List AssetClass := a.map (·.1)

/-- The `HashMap` invariant. -/
def WF (a : Assets) : Prop := (keys a).Nodup

/-- Semantic equality: entries with amount zero are immaterial. -/
def SemEq (a b : Assets) : Prop := ∀ c, amt a c = amt b c

infix:50 " ≈ₐ " => SemEq

/-! #### constructors -/

def empty : Assets := []
def fromClassAndAmount (c : AssetClass) (n : Int) : Assets := [(c, n)]
def fromNakedAmount (n : Int) : Assets := [(.naked, n)]
def fromNamedAsset (name : Bytes) (n : Int) : Assets :=
  if name = [] then fromNakedAmount n else [(.named name, n)]
def fromDefinedAsset (policy name : Bytes) (n : Int) : Assets :=
  if policy = [] then fromNamedAsset name n else [(.defined policy name, n)]
def fromAsset (policy name : Option Bytes) (n : Int) : Assets :=
  match policy, name with
  | some p, some nm => fromDefinedAsset p nm n
  | some p, none => fromDefinedAsset p [] n
  | none, some nm => fromNamedAsset nm n
  | none, none => fromNakedAmount n

/-! #### `Neg`, `Add`, `Sub` -/

def neg (a : Assets) : Assets := a.map fun kv => (kv.1, -kv.2)

/-- `*map.entry(k).or_default() += d`. -/
def upsert : Assets → AssetClass → Int → Assets
  | [], k, d => [(k, 0 + d)]
  | (k', v) :: rest, k, d =>
    if k' = k then (k', v + d) :: rest else (k', v) :: upsert rest k d

/-- `map.retain(|_, v| v != 0)`. -/
def retainNZ (a : Assets) : Assets := a.filter fun kv => kv.2 ≠ 0

def addRaw (a b : Assets) : Assets := b.foldl (fun acc kv => upsert acc kv.1 kv.2) a
def subRaw (a b : Assets) : Assets := b.foldl (fun acc kv => upsert acc kv.1 (-kv.2)) a

def add (a b : Assets) : Assets := retainNZ (addRaw a b)
def sub (a b : Assets) : Assets := retainNZ (subRaw a b)

/-! #### predicates -/

/-- `contains_total`. -/
def containsTotal (self other : Assets) : Bool :=
  other.all fun kv =>
    if kv.2 = 0 then true
    else if kv.2 < 0 then false
    else match get? self kv.1 with
      | none => false
      | some s => if s < 0 then false else !(s < kv.2)

def isEmpty (a : Assets) : Bool := a.all fun kv => kv.2 = 0

/-- `contains_some`. -/
def containsSome (self other : Assets) : Bool :=
  if isEmpty other then true
  else if isEmpty self then false
  else other.any fun kv =>
    if kv.2 = 0 then false
    else match get? self kv.1 with
      | none => false
      | some s => decide (s > 0)

def isEmptyOrNegative (a : Assets) : Bool := a.all fun kv => !(kv.2 > 0)
def isOnlyNaked (a : Assets) : Bool := a.all fun kv => kv.2 == 0 || kv.1.isNaked

/-- `PartialEq for CanonicalAssets` (after the `fix:` commit for C15): two values
are equal when every class has the same amount on both sides, an absent class
counting as zero. -/
def beq (a b : Assets) : Bool :=
  (a.all fun kv => kv.2 = amt b kv.1) && (b.all fun kv => kv.2 = amt a kv.1)

/-- The derived `PartialEq` on the raw `HashMap` that the pinned tree had:
equality of `get?` at every key — zero entries are visible. -/
def beqStructural (a b : Assets) : Bool :=
  (a.all fun kv => get? b kv.1 = some kv.2) && (b.all fun kv => get? a kv.1 = some kv.2)

end Assets

/-! ### The asset-expression list of the IR (`reduce/mod.rs`)

Only the shape needed by the conversions: policy and name are `None`, `Bytes`
or `String` (as bytes); amounts are numbers. -/

inductive NameExpr where
  | none
  | bytes (b : Bytes)
  | str (b : Bytes)       -- a `String`, as its UTF-8 bytes
  | hash (b : Bytes)      -- a `Hash`: what a policy definition lowers to
  | other                 -- any other expression: treated like `None`
  deriving DecidableEq, Repr

structure ConstAsset where
  policy : NameExpr
  name : NameExpr
  amount : Int
  deriving DecidableEq, Repr

namespace Assets

/-- `expect_constant_policy`: `Bytes`, or the `Hash` a policy definition lowers to. -/
def constPolicy : NameExpr → Option Bytes
  | .bytes b => some b
  | .hash b => some b
  | _ => none

/-- `expect_constant_name`: `Bytes` or `String`. -/
def constName : NameExpr → Option Bytes
  | .bytes b => some b
  | .str b => some b
  | _ => none

/-- `From<AssetExpr> for CanonicalAssets`. -/
def ofExpr (e : ConstAsset) : Assets :=
  fromAsset (constPolicy e.policy) (constName e.name) e.amount

/-- `From<Vec<AssetExpr>> for CanonicalAssets`. -/
def ofExprs (es : List ConstAsset) : Assets :=
  es.foldl (fun acc e => add acc (ofExpr e)) empty

/-- `From<CanonicalAssets> for Vec<AssetExpr>` for the entries taken in the
order `a` lists them (the real order is the `HashMap`'s). -/
def toExprs (a : Assets) : List ConstAsset :=
  a.map fun kv =>
    { policy := match kv.1.policy? with | some p => .bytes p | none => .none
      name := match kv.1.name? with | some n => .bytes n | none => .none
      amount := kv.2 }

end Assets
end Tx3
