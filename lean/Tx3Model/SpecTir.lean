import Tx3Model.Reduce

/-
Spec side of C06: an independent generic walk over *every* child of every node (it knows
nothing about which children the implementation's traversals visit) collecting the
unresolved parameter nodes, and the model of the resolver's argument guard.
-/

namespace Tx3

inductive PRef where
  | value (name : String)
  | input (name : String)
  | fees
  deriving DecidableEq, Repr

/-- The unresolved parameter a node itself stands for, if any. -/
def Kind.pref? : Kind → Option PRef
  | .param (.expectValue n _) => some (.value n)
  | .param (.expectInput n _ _) => some (.input n)
  | .param .expectFees => some .fees
  | _ => none

namespace Expr

mutual
def unresolved : Expr → List PRef
  | leaf _ => []
  | node k cs => k.pref?.toList ++ unresolvedL cs
def unresolvedL : List Expr → List PRef
  | [] => []
  | c :: cs => unresolved c ++ unresolvedL cs
end

/-- No unresolved parameter anywhere inside. -/
def Closed (e : Expr) : Prop := unresolved e = []
def ClosedL (es : List Expr) : Prop := unresolvedL es = []

/-- Local shape facts the Rust types guarantee and the pipeline maintains: the payload of a
`Set` and the datum/script expressions of UTxOs are closed (lowering emits no `Set`; the apply
stages only wrap argument values, UTxO sets and the fee literal), and `ExpectValue` /
`ExpectFees` have no expression fields. -/
def Kind.SealedAt (k : Kind) (cs : List Expr) : Prop :=
  match k with
  | .param .set => ClosedL cs
  | .utxoSet _ => ClosedL cs
  | .param (.expectValue _ _) => cs = []
  | .param .expectFees => cs = []
  | _ => True

mutual
def Sealed : Expr → Prop
  | leaf _ => True
  | node k cs => Kind.SealedAt k cs ∧ SealedL cs
def SealedL : List Expr → Prop
  | [] => True
  | c :: cs => Sealed c ∧ SealedL cs
end

/-- Executable form of `Sealed` (evaluated by the driver on every template and argument set). -/
def Kind.sealedAtB (k : Kind) (cs : List Expr) : Bool :=
  match k with
  | .param .set => (unresolvedL cs).isEmpty
  | .utxoSet _ => (unresolvedL cs).isEmpty
  | .param (.expectValue _ _) => cs.isEmpty
  | .param .expectFees => cs.isEmpty
  | _ => true

mutual
def sealedb : Expr → Bool
  | leaf _ => true
  | node k cs => Kind.sealedAtB k cs && sealedbL cs
def sealedbL : List Expr → Bool
  | [] => true
  | c :: cs => sealedb c && sealedbL cs
end

end Expr

def Tx.unresolved (t : Tx) : List PRef := t.slots.flatMap Expr.unresolved

/-- Ordered insert without duplicates: the key set of a `BTreeMap<String, _>`. -/
def insertKey (k : String) : List String → List String
  | [] => [k]
  | x :: xs => if k = x then x :: xs else if k < x then k :: x :: xs else x :: insertKey k xs

def keySet (l : List String) : List String := l.foldr insertKey []

/-- `safe_apply_args` of the resolver: the first reported parameter (in key order) without an
argument is refused by name; otherwise the arguments are applied. -/
def Tx.safeApplyArgs (t : Tx) (σ : ArgMap) : Outcome Tx :=
  match (keySet (t.params.map (·.1))).find? (fun p => (lookupS σ p).isNone) with
  | some p => .err ("MissingTxArg:" ++ p)
  | none => .ok (t.applyArgs σ)

end Tx3
