import Tx3Model.Cbor
import Tx3Model.Tir

/-
Plutus Data: the standard CBOR convention as a spec codec (`specWrite` / `specRead`), and the
implementation model of `compile/plutus_data.rs` + `compile_data_expr` (`Expr → PData`).
-/

namespace Tx3

inductive PData where
  | constr (ix : Nat) (fields : List PData)
  | map (kvs : List (PData × PData))
  | list (xs : List PData)
  | int (v : Int)
  | bytes (b : Bytes)
  deriving Repr

namespace PData

mutual
def beq : PData → PData → Bool
  | constr i fs, constr j gs => i == j && beqL fs gs
  | map a, map b => beqKV a b
  | list a, list b => beqL a b
  | int a, int b => a == b
  | bytes a, bytes b => a == b
  | _, _ => false
def beqL : List PData → List PData → Bool
  | [], [] => true
  | a :: as, b :: bs => beq a b && beqL as bs
  | _, _ => false
def beqKV : List (PData × PData) → List (PData × PData) → Bool
  | [], [] => true
  | (a, b) :: r, (c, d) :: s => beq a c && beq b d && beqKV r s
  | _, _ => false
end

instance : BEq PData := ⟨beq⟩

/-! ### The standard convention, written from the specification -/

open Cbor

/-- 64-byte chunks of a long byte string (`fuel` bounds the number of chunks). -/
def chunk64 : Nat → Bytes → List Bytes
  | 0, _ => []
  | fuel + 1, b => if b.isEmpty then [] else b.take 64 :: chunk64 fuel (b.drop 64)

mutual
def specWrite : PData → Item
  | constr i fs =>
    if i ≤ 6 then .tag (121 + i) (.array (specWriteL fs))
    else if i ≤ 127 then .tag (1280 + (i - 7)) (.array (specWriteL fs))
    else .tag 102 (.array [.int i, .array (specWriteL fs)])
  | map kvs => .map (specWriteKV kvs)
  | list xs => .array (specWriteL xs)
  | int v =>
    if -(2 : Int)^64 ≤ v ∧ v < (2 : Int)^64 then .int v
    else if v ≥ 0 then .tag 2 (.bytes (natToBytes v.toNat))
    else .tag 3 (.bytes (natToBytes (-1 - v).toNat))
  | bytes b =>
    -- canonical Plutus encoding: up to 64 bytes definite, longer ones as 64-byte chunks
    if b.length ≤ 64 then .bytes b else .bytesIndef (chunk64 b.length b)
def specWriteL : List PData → List Item
  | [] => []
  | x :: xs => specWrite x :: specWriteL xs
def specWriteKV : List (PData × PData) → List (Item × Item)
  | [] => []
  | (k, v) :: rest => (specWrite k, specWrite v) :: specWriteKV rest
end

mutual
def specRead : Item → Option PData
  | .tag t x =>
    if 121 ≤ t ∧ t ≤ 127 then
      (match x with
       | .array fs => (specReadL fs).map (constr (t - 121))
       | .arrayIndef fs => (specReadL fs).map (constr (t - 121))
       | _ => none)
    else if 1280 ≤ t ∧ t ≤ 1400 then
      (match x with
       | .array fs => (specReadL fs).map (constr (t - 1280 + 7))
       | .arrayIndef fs => (specReadL fs).map (constr (t - 1280 + 7))
       | _ => none)
    else if t = 102 then
      (match x with
       | .array [.int i, .array fs] => if i < 0 then none else (specReadL fs).map (constr i.toNat)
       | .array [.int i, .arrayIndef fs] => if i < 0 then none else (specReadL fs).map (constr i.toNat)
       | _ => none)
    else if t = 2 then
      (match x with
       | .bytes b => some (int (beNat b))
       | .bytesIndef cs => some (int (beNat cs.flatten))
       | _ => none)
    else if t = 3 then
      (match x with
       | .bytes b => some (int (-1 - (beNat b : Int)))
       | .bytesIndef cs => some (int (-1 - (beNat cs.flatten : Int)))
       | _ => none)
    else none
  | .int v => some (int v)
  | .bytes b => some (bytes b)
  | .bytesIndef cs => some (bytes cs.flatten)
  | .array xs => (specReadL xs).map list
  | .arrayIndef xs => (specReadL xs).map list
  | .map kvs => (specReadKV kvs).map map
  | _ => none
def specReadL : List Item → Option (List PData)
  | [] => some []
  | x :: xs => do
    let a ← specRead x
    let as ← specReadL xs
    pure (a :: as)
def specReadKV : List (Item × Item) → Option (List (PData × PData))
  | [] => some []
  | (k, v) :: rest => do
    let a ← specRead k
    let b ← specRead v
    let r ← specReadKV rest
    pure ((a, b) :: r)
end

end PData

/-! ### Implementation model: expression → Plutus Data -/

def pdUnit : PData := .constr 0 []

mutual
/-- `TryIntoData for Expression` (redeemers; elements of lists and maps everywhere). -/
def tryAsData : Expr → Outcome PData
  | .leaf .none => .ok pdUnit
  | .leaf (.bytes b) => .ok (.bytes b)
  | .leaf (.number n) => .ok (.int n)
  | .leaf (.bool b) => .ok (.constr (if b then 1 else 0) [])
  | .leaf (.string s) => .ok (.bytes s.toUTF8.toList)
  | .leaf (.address b) => .ok (.bytes b)
  | .leaf (.hash b) => .ok (.bytes b)
  | .node (.struct c) fs => do let ds ← tryAsDataL fs; .ok (.constr c ds)
  | .node .list xs => do let ds ← tryAsDataL xs; .ok (.list ds)
  | .node .map kvs => do let ds ← tryAsDataKV kvs; .ok (.map ds)
  | _ => .err "CoerceError:PlutusData"
def tryAsDataL : List Expr → Outcome (List PData)
  | [] => .ok []
  | x :: xs => do
    let d ← tryAsData x
    let ds ← tryAsDataL xs
    .ok (d :: ds)
def tryAsDataKV : List Expr → Outcome (List (PData × PData))
  | k :: v :: rest => do
    let a ← tryAsData k
    let b ← tryAsData v
    let r ← tryAsDataKV rest
    .ok ((a, b) :: r)
  | _ => .ok []
end

mutual
/-- `compile_data_expr` (output datums): structs recurse through `compile_data_expr`, lists and
maps through `try_as_data`; `None`, `Hash`, tuples are rejected at this level. -/
def compileDataExpr : Expr → Outcome PData
  | .leaf (.bytes b) => .ok (.bytes b)
  | .leaf (.number n) => .ok (.int n)
  | .leaf (.bool b) => .ok (.constr (if b then 1 else 0) [])
  | .leaf (.string s) => .ok (.bytes s.toUTF8.toList)
  | .leaf (.address b) => .ok (.bytes b)
  | .node (.struct c) fs => do let ds ← compileDataExprL fs; .ok (.constr c ds)
  | .node .map kvs => do let ds ← tryAsDataKV kvs; .ok (.map ds)
  | .node .list xs => do let ds ← tryAsDataL xs; .ok (.list ds)
  | _ => .err "CoerceError:DataExpr"
def compileDataExprL : List Expr → Outcome (List PData)
  | [] => .ok []
  | x :: xs => do
    let d ← compileDataExpr x
    let ds ← compileDataExprL xs
    .ok (d :: ds)
end

end Tx3
