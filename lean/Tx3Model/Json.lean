import Tx3Model.Tir

/-
L10 — `tx3-resolver/src/interop.rs`, `trp/mod.rs`: JSON values, `from_json` per declared type,
and the argument part of `parse_resolve_request`.
-/

namespace Tx3.Json

inductive JVal where
  | null
  | bool (b : Bool)
  | int (n : Int)          -- a JSON number serde_json holds as u64/i64
  | float                  -- any other JSON number (fraction, exponent, beyond 64 bits)
  | str (s : String)
  | arr
  | obj (fields : List (String × JVal))
  deriving Repr

/-- The argument values `from_json` produces. -/
inductive Arg where
  | int (n : Int)
  | bool (b : Bool)
  | string (s : String)
  | bytes (b : Bytes)
  | address (b : Bytes)
  | utxoRef (r : UtxoRef)
  deriving Repr, DecidableEq

/-! ### text codecs -/

/-- `hex::decode`: even length, hex digits of either case. -/
def hexDecodeStr (s : String) : Option Bytes := hexDecodeChars s.toList

/-- `hex_to_bytes`: one optional `0x` prefix. -/
def hexToBytes (s : String) : Option Bytes :=
  match s.toList with
  | '0' :: 'x' :: rest => hexDecodeChars rest
  | cs => hexDecodeChars cs

def decDigit (c : Char) : Option Nat := if '0' ≤ c ∧ c ≤ '9' then some (c.toNat - 48) else none

def parseNatChars : List Char → Nat → Option Nat
  | [], acc => some acc
  | c :: cs, acc => match decDigit c with
    | some d => parseNatChars cs (acc * 10 + d)
    | none => none

/-- `i128::from_str_radix(s, 10)` / `u32::from_str`: optional sign, at least one digit. -/
def parseDec (s : String) : Option Int :=
  match s.toList with
  | '-' :: (c :: cs) => (parseNatChars (c :: cs) 0).map fun n => -(n : Int)
  | '+' :: (c :: cs) => (parseNatChars (c :: cs) 0).map fun n => (n : Int)
  | c :: cs => (parseNatChars (c :: cs) 0).map fun n => (n : Int)
  | [] => none

/-- 16 big-endian bytes as a two's-complement `i128`. -/
def ofBE16 (b : Bytes) : Int :=
  let n := Cbor_beNat b
  if n < 2^127 then n else (n : Int) - 2^128
where
  Cbor_beNat (bs : Bytes) : Nat := bs.foldl (fun acc x => acc * 256 + x.toNat) 0

/-- `string_to_bigint`. -/
def has0x : List Char → Bool
  | '0' :: 'x' :: _ => true
  | _ => false

def stringToBigint (s : String) : Outcome Int :=
  if has0x s.toList then
    match hexToBytes s with
    | some b => if b.length = 16 then .ok (ofBE16 b) else .err "InvalidBytesForNumber"
    | none => .err "InvalidHex"
  else
    match parseDec s with
    | some v => if inI128 v then .ok v else .err "InvalidBytesForNumber"
    | none => .err "InvalidBytesForNumber"

def valueToBigint : JVal → Outcome Int
  | .int n => .ok n
  | .float => .err "NumberCantFit"
  | .str s => stringToBigint s
  | .null => .err "ValueIsNull"
  | _ => .err "ValueIsNotANumber"

def valueToBool : JVal → Outcome Bool
  | .bool b => .ok b
  | .int n => if n = 0 then .ok false else if n = 1 then .ok true else .err "ValueIsNotABool"
  | .str s => if s = "true" then .ok true else if s = "false" then .ok false else .err "ValueIsNotABool"
  | _ => .err "ValueIsNotABool"

/-- The envelope `{content | bytecode | payload, contentType | encoding}` as serde reads it: one
content field, one encoding field, unknown fields ignored. `base64` content is decoded by the
parameter `b64` (the base64 crate is not modelled). -/
def envelopeBytes (b64 : String → Option Bytes) (fields : List (String × JVal)) : Outcome Bytes :=
  let contents := fields.filter fun f => f.1 = "content" || f.1 = "bytecode" || f.1 = "payload"
  let encs := fields.filter fun f => f.1 = "contentType" || f.1 = "encoding"
  match contents, encs with
  | [(_, .str c)], [(_, .str e)] =>
    if e = "hex" then (match hexToBytes c with | some b => .ok b | none => .err "InvalidHex")
    else if e = "base64" then (match b64 c with | some b => .ok b | none => .err "InvalidBase64")
    else .err "InvalidBytesEnvelope"
  | _, _ => .err "InvalidBytesEnvelope"

def valueToBytes (b64 : String → Option Bytes) : JVal → Outcome Bytes
  | .str s => (match hexToBytes s with | some b => .ok b | none => .err "InvalidHex")
  | .obj fields => envelopeBytes b64 fields
  | _ => .err "ValueIsNotBytes"

/-- `bech32` decoding is a parameter (the crate is not modelled). -/
def valueToAddress (bech32 : String → Option Bytes) : JVal → Outcome Bytes
  | .str s =>
    (match bech32 s with
     | some b => .ok b
     | none => match hexToBytes s with | some b => .ok b | none => .err "InvalidHex")
  | _ => .err "ValueIsNotAnAddress"

def splitOnceHash (cs : List Char) (acc : List Char) : Option (List Char × List Char) :=
  match cs with
  | [] => none
  | c :: rest => if c = '#' then some (acc.reverse, rest) else splitOnceHash rest (c :: acc)

/-- `str::parse::<u32>` on the index part: an optional `+`, then digits. -/
def indexChars (i : List Char) : Option Nat :=
  match i with
  | '+' :: c :: cs => parseNatChars (c :: cs) 0
  | [] => none
  | cs => parseNatChars cs 0

def stringToUtxoRef (s : String) : Outcome UtxoRef :=
  match splitOnceHash s.toList [] with
  | none => .err "InvalidUtxoRef"
  | some (t, i) =>
    match hexDecodeChars t, indexChars i with
    | some txid, some idx => if idx < 2^32 then .ok { txid, index := idx } else .err "InvalidUtxoRef"
    | _, _ => .err "InvalidUtxoRef"

structure Codecs where
  b64 : String → Option Bytes
  bech32 : String → Option Bytes

/-- `interop::from_json`. -/
def fromJson (cd : Codecs) (v : JVal) (t : Ty) : Outcome Arg :=
  match t with
  | .int => do let i ← valueToBigint v; .ok (.int i)
  | .bool => do let b ← valueToBool v; .ok (.bool b)
  | .bytes => do let b ← valueToBytes cd.b64 v; .ok (.bytes b)
  | .address => do let a ← valueToAddress cd.bech32 v; .ok (.address a)
  | .utxoRef =>
    (match v with
     | .str s => do let r ← stringToUtxoRef s; .ok (.utxoRef r)
     | _ => .err "ValueIsNotUtxoRef")
  | .undefined =>
    (match v with
     | .bool b => .ok (.bool b)
     | .int n => .ok (.int n)
     | .float => .err "NumberCantFit"
     | .str s => .ok (.string s)
     | _ => .err "CantInferTypeForValue")
  | _ => .err "TargetTypeNotSupported"

/-! ### `parse_resolve_request`: the argument map -/

def lookup {α} (m : List (String × α)) (k : String) : Option α :=
  match m with
  | [] => none
  | (k', v) :: rest => if k' = k then some v else lookup rest k

def insertArg (m : List (String × Arg)) (k : String) (v : Arg) : List (String × Arg) :=
  match m with
  | [] => [(k, v)]
  | (k', v') :: rest => if k' = k then (k, v) :: rest else (k', v') :: insertArg rest k v

/-- Environment entries first, then arguments (an argument overrides an environment value of the
same name); entries that are not declared parameters are skipped; the first coercion error
aborts. JSON maps are key-sorted (`serde_json::Map` is a `BTreeMap`). -/
def parseArgs (cd : Codecs) (declared : List (String × Ty)) (env args : List (String × JVal)) :
    Outcome (List (String × Arg)) :=
  let rec go : List (String × JVal) → List (String × Arg) → Outcome (List (String × Arg))
    | [], acc => .ok acc
    | (k, v) :: rest, acc =>
      match lookup declared k with
      | some ty => do
        let a ← fromJson cd v ty
        go rest (insertArg acc k a)
      | none => go rest acc
  go (env ++ args) []

end Tx3.Json
