/-
L0 — basic vocabulary shared by every layer of the model.

Model files import nothing outside core Lean, so the same definitions are the
subject of the theorems in `Tx3Proofs` and are compiled into the native driver.
-/

namespace Tx3

/-- Byte strings. `List UInt8` has decidable equality and a lexicographic order. -/
abbrev Bytes := List UInt8

/-- What a modelled Rust function can do: return, return `Err`, or panic
(`unwrap`/`expect`/`todo!`/`unreachable!`/overflow in a debug build). -/
inductive Outcome (α : Type) where
  | ok (a : α)
  | err (e : String)
  | panic (site : String)
  deriving Repr, DecidableEq

namespace Outcome

def bind {α β} (x : Outcome α) (f : α → Outcome β) : Outcome β :=
  match x with
  | ok a => f a
  | err e => err e
  | panic s => panic s

instance : Monad Outcome where
  pure := ok
  bind := bind

def isOk {α} : Outcome α → Bool
  | ok _ => true
  | _ => false

def isPanic {α} : Outcome α → Bool
  | panic _ => true
  | _ => false

/-- Class of the outcome: what the correspondence compares for failing cases. -/
def cls {α} : Outcome α → String
  | ok _ => "ok"
  | err e => "err:" ++ e
  | panic s => "panic:" ++ s

end Outcome

/-! ### Machine integer ranges and the casts Rust performs -/

def i128Min : Int := -(2^127)
def i128Max : Int := 2^127 - 1
def i64Min : Int := -(2^63)
def i64Max : Int := 2^63 - 1
def u64Max : Int := 2^64 - 1
def u32Max : Int := 2^32 - 1

def inI128 (x : Int) : Bool := decide (i128Min ≤ x ∧ x ≤ i128Max)
def inI64 (x : Int) : Bool := decide (i64Min ≤ x ∧ x ≤ i64Max)
def inU64 (x : Int) : Bool := decide (0 ≤ x ∧ x ≤ u64Max)
def inU32 (x : Int) : Bool := decide (0 ≤ x ∧ x ≤ u32Max)

/-- `x as u64` on an `i128`: reduction modulo 2^64. -/
def asU64 (x : Int) : Int := x % 2^64

/-- `x as i64` on an `i128`/`u64`: two's-complement truncation to 64 bits. -/
def asI64 (x : Int) : Int :=
  let m := x % 2^64
  if m < 2^63 then m else m - 2^64

/-- `x as u32` on an `u64`/`i128`. -/
def asU32 (x : Int) : Int := x % 2^32

/-- `x as usize` on an `i128` (64-bit target). -/
def asUsize (x : Int) : Int := x % 2^64

/-! ### Hex -/

def hexDigit (n : Nat) : Char :=
  if n < 10 then Char.ofNat (48 + n) else Char.ofNat (87 + n)

def hexOfByte (b : UInt8) : List Char :=
  [hexDigit (b.toNat / 16), hexDigit (b.toNat % 16)]

def hexEncode (bs : Bytes) : String :=
  String.ofList (bs.flatMap hexOfByte)

def hexVal (c : Char) : Option Nat :=
  if '0' ≤ c ∧ c ≤ '9' then some (c.toNat - 48)
  else if 'a' ≤ c ∧ c ≤ 'f' then some (c.toNat - 87)
  else if 'A' ≤ c ∧ c ≤ 'F' then some (c.toNat - 55)
  else none

def hexDecodeChars : List Char → Option Bytes
  | [] => some []
  | [_] => none
  | a :: b :: rest =>
    match hexVal a, hexVal b, hexDecodeChars rest with
    | some x, some y, some r => some (UInt8.ofNat (x * 16 + y) :: r)
    | _, _, _ => none

def hexDecode (s : String) : Option Bytes := hexDecodeChars s.toList

/-! ### Lexicographic byte order (as `Ord` on `Vec<u8>` / `Hash<N>`) -/

def bytesLt : Bytes → Bytes → Bool
  | [], [] => false
  | [], _ :: _ => true
  | _ :: _, [] => false
  | a :: as, b :: bs => if a < b then true else if b < a then false else bytesLt as bs

def bytesLe (a b : Bytes) : Bool := !(bytesLt b a)

/-- Insertion sort with an explicit `≤`; used wherever the ledger sorts. -/
def insertBy {α} (le : α → α → Bool) (x : α) : List α → List α
  | [] => [x]
  | y :: ys => if le x y then x :: y :: ys else y :: insertBy le x ys

def sortBy {α} (le : α → α → Bool) : List α → List α
  | [] => []
  | x :: xs => insertBy le x (sortBy le xs)

def dedupAdj {α} [DecidableEq α] : List α → List α
  | [] => []
  | [x] => [x]
  | x :: y :: rest => if x = y then dedupAdj (y :: rest) else x :: dedupAdj (y :: rest)

end Tx3
