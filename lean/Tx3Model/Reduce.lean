import Tx3Model.Tir

/-
L3 — `tx3-tir/src/reduce/mod.rs` (+ the visitor of `v1beta0.rs` / `compile.rs`).

Traversals are mutual element/list pairs (structural recursion over the nested
inductive).  `reduce` re-reduces the *results* of recursive calls (the Rust
code reduces a non-collapsing `EvalBuiltIn`/`EvalCoerce`/`EvalParam` a second
time), so it is defined with a fuel argument; `reduce e` supplies `size e + 1`,
which is enough whenever results are no deeper than their inputs.
-/

namespace Tx3

abbrev ArgMap := List (String × Expr)        -- values already through `arg_value_into_expr`
abbrev InputMap := List (String × Expr)      -- each value a `utxoSet` node

def lookupS {α} (m : List (String × α)) (k : String) : Option α :=
  match m with
  | [] => none
  | (k', v) :: rest => if k' = k then some v else lookupS rest k

namespace Expr

/-! ### apply_args / apply_inputs / apply_fees -/

mutual
def applyArgs (σ : ArgMap) : Expr → Expr
  | leaf l => leaf l
  | node k cs =>
    match k with
    | .param (.expectValue name _) =>
      (match lookupS σ name with
       | some v => node (.param .set) [v]
       | Option.none => node k cs)
    | .param .set => node k cs            -- `x => Ok(x)`: the payload of `Set` is not visited
    | .param .expectFees => node k cs
    | .utxoSet _ => node k cs
    | _ => node k (applyArgsL σ cs)
def applyArgsL (σ : ArgMap) : List Expr → List Expr
  | [] => []
  | c :: cs => applyArgs σ c :: applyArgsL σ cs
end

mutual
def applyInputs (ι : InputMap) : Expr → Expr
  | leaf l => leaf l
  | node k cs =>
    match k with
    | .param (.expectInput name _ _) =>
      (match lookupS ι name with
       | some us => node (.param .set) [us]
       | Option.none => node k cs)         -- the query itself is not visited
    | .param _ => node k cs
    | .utxoSet _ => node k cs
    | _ => node k (applyInputsL ι cs)
def applyInputsL (ι : InputMap) : List Expr → List Expr
  | [] => []
  | c :: cs => applyInputs ι c :: applyInputsL ι cs
end

/-- What `Param::ExpectFees` becomes: `Set(Assets([{None, None, Number(fees)}]))`. -/
def feeExpr (fees : Int) : Expr :=
  node (.param .set) [node .assets [leaf .none, leaf .none, leaf (.number fees)]]

mutual
def applyFees (fees : Int) : Expr → Expr
  | leaf l => leaf l
  | node k cs =>
    match k with
    | .param .expectFees => feeExpr fees
    | .param (.expectInput _ _ _) => node k (applyFeesL fees cs)
    | .param _ => node k cs
    | .utxoSet _ => node k cs
    | _ => node k (applyFeesL fees cs)
def applyFeesL (fees : Int) : List Expr → List Expr
  | [] => []
  | c :: cs => applyFees fees c :: applyFeesL fees cs
end

/-! ### is_constant / params / queries -/

mutual
def isConstant : Expr → Bool
  | leaf _ => true
  | node k cs =>
    match k with
    | .param .set => isConstantL cs
    | .param _ => false
    | .compiler _ => false
    | .utxoSet _ => true
    | _ => isConstantL cs
def isConstantL : List Expr → Bool
  | [] => true
  | c :: cs => isConstant c && isConstantL cs
end

mutual
def params : Expr → List (String × Ty)
  | leaf _ => []
  | node k cs =>
    match k with
    | .param (.expectValue name ty) => [(name, ty)]
    | .param (.expectInput _ _ _) => paramsL cs
    | .param _ => []
    | .utxoSet _ => []
    | _ => paramsL cs
def paramsL : List Expr → List (String × Ty)
  | [] => []
  | c :: cs => params c ++ paramsL cs
end

/-- A reported query: name, `many`, `collateral`, and the three query expressions. -/
structure Query where
  name : String
  many : Bool
  collateral : Bool
  body : List Expr

mutual
def queries : Expr → List Query
  | leaf _ => []
  | node k cs =>
    match k with
    | .param (.expectInput name many coll) => [{ name, many, collateral := coll, body := cs }]
    | .param _ => []
    | .utxoSet _ => []
    | _ => queriesL cs
def queriesL : List Expr → List Query
  | [] => []
  | c :: cs => queries c ++ queriesL cs
end

end Expr

/-! ### `Vec<AssetExpr>` ⇄ `CanonicalAssets` on expression children -/

def nameExprOf : Expr → NameExpr
  | .leaf .none => .none
  | .leaf (.bytes b) => .bytes b
  | .leaf (.string s) => .str s.toUTF8.toList
  | .leaf (.hash b) => .hash b
  | _ => .other

def classRank : AssetClass → Nat
  | .naked => 0 | .named _ => 1 | .defined _ _ => 2

/-- Rust's derived `Ord` on `AssetClass`; used as the canonical order of asset lists that come
out of a `HashMap`. -/
def classLe (a b : AssetClass) : Bool :=
  if classRank a != classRank b then classRank a < classRank b else
  match a, b with
  | .named x, .named y => bytesLe x y
  | .defined p x, .defined q y => if p = q then bytesLe x y else bytesLe p q
  | _, _ => true

def sortAssets (a : Assets) : Assets := sortBy (fun x y => classLe x.1 y.1) a

def fitsI128 (a : Assets) : Bool := a.all fun kv => inI128 kv.2

/-- `try_canonical_assets` on the flattened children of an `assets` node: `none` when an
amount is not a number literal or a running total leaves the `i128` range. -/
def assetsOfChildren : List Expr → Assets → Option Assets
  | p :: n :: a :: rest, acc =>
    match a with
    | .leaf (.number amount) =>
      let one := Assets.fromAsset (Assets.constPolicy (nameExprOf p)) (Assets.constName (nameExprOf n)) amount
      let raw := Assets.addRaw acc one
      if fitsI128 raw then assetsOfChildren rest (Assets.retainNZ raw) else none
    | _ => none
  | [], acc => some acc
  | _, _ => none

/-- `From<CanonicalAssets> for Vec<AssetExpr>`, entries in canonical order. -/
def childrenOfAssets (a : Assets) : List Expr :=
  (sortAssets a).flatMap fun kv =>
    [ (match kv.1.policy? with | some p => Expr.leaf (.bytes p) | none => Expr.leaf .none),
      (match kv.1.name? with | some n => Expr.leaf (.bytes n) | none => Expr.leaf .none),
      Expr.leaf (.number kv.2) ]

def assetsNode (a : Assets) : Expr := .node .assets (childrenOfAssets a)

/-! ### Arithmetic / Concatenable / Indexable / Coerceable -/

def errBin (op : String) : Outcome Expr := .err ("InvalidBinaryOp:" ++ op)
def errUn (op : String) : Outcome Expr := .err ("InvalidUnaryOp:" ++ op)

def arithNeg : Expr → Outcome Expr
  | .leaf .none => .ok (.leaf .none)
  | .leaf (.number x) => if inI128 (-x) then .ok (.leaf (.number (-x))) else errUn "neg"
  | .node .assets cs =>
    (match assetsOfChildren cs [] with
     | some a =>
       let r := Assets.neg a
       if fitsI128 r then .ok (assetsNode r) else errUn "neg"
     | none => errUn "neg")
  | _ => errUn "neg"

def arithAdd (x y : Expr) : Outcome Expr :=
  match x with
  | .leaf .none => .ok y
  | .leaf (.number a) =>
    (match y with
     | .leaf (.number b) => if inI128 (a + b) then .ok (.leaf (.number (a + b))) else errBin "add"
     | .leaf .none => .ok x
     | _ => errBin "add")
  | .node .assets cs =>
    (match y with
     | .node .assets ds =>
       (match assetsOfChildren ds [], assetsOfChildren cs [] with
        | some b, some a =>
          let raw := Assets.addRaw a b
          if fitsI128 raw then .ok (assetsNode (Assets.retainNZ raw)) else errBin "add"
        | _, _ => errBin "add")
     | .leaf .none =>
       (match assetsOfChildren cs [] with
        | some a => .ok (assetsNode (Assets.retainNZ (Assets.addRaw a [])))
        | none => errBin "add")
     | _ => errBin "add")
  | _ => errBin "add"

def arithSub (x y : Expr) : Outcome Expr :=
  match x with
  | .leaf .none => arithNeg y                  -- nothing less `y` is `-y`
  | .leaf (.number _) => do let ny ← arithNeg y; arithAdd x ny
  | .node .assets _ => do let ny ← arithNeg y; arithAdd x ny
  | _ => errBin "sub"

def concat (x y : Expr) : Outcome Expr :=
  match x with
  | .leaf .none => .ok y
  | .leaf (.string s) =>
    (match y with
     | .leaf (.string t) => .ok (.leaf (.string (s ++ t)))
     | .leaf (.number n) => .ok (.leaf (.string (s ++ toString n)))
     | .leaf .none => .ok x
     | _ => errBin "concat")
  | .leaf (.bytes b) =>
    (match y with
     | .leaf (.bytes c) => .ok (.leaf (.bytes (b ++ c)))
     | .leaf .none => .ok x
     | _ => errBin "concat")
  | .node .list xs =>
    (match y with
     | .node .list ys => .ok (.node .list (xs ++ ys))
     | _ => errBin "concat")
  | _ => errBin "concat"

def findPair (idx : Expr) : List Expr → Option Expr
  | k :: v :: rest => if k == idx then some (.node .tuple [k, v]) else findPair idx rest
  | _ => none

/-- `usize::try_from(n).ok()?` then `get`: a position the sequence has, or nothing. -/
def nth? (xs : List Expr) (n : Int) : Option Expr := if n < 0 then none else xs[n.toNat]?

/-- `Indexable for Expression::index`. -/
def index (x idx : Expr) : Option Expr :=
  match x with
  | .node .map kvs => findPair idx kvs
  | .node .list xs => do let n ← idx.asNumber?; nth? xs n
  | .node .tuple [a, b] => do
    let n ← idx.asNumber?
    if n = 0 then some a else if n = 1 then some b else none
  | .node (.struct _) fields => do let n ← idx.asNumber?; nth? fields n
  | _ => none

def indexOrErr (x idx : Expr) : Outcome Expr :=
  match index x idx with
  | some r => .ok r
  | none => .err "PropertyIndexNotFound"

def sumUtxoAssets : List UtxoMeta → Assets → Option Assets
  | [], acc => some acc
  | m :: rest, acc =>
    let raw := Assets.addRaw acc m.assets
    if fitsI128 raw then sumUtxoAssets rest (Assets.retainNZ raw) else none

def intoAssets (x : Expr) : Outcome Expr :=
  match x with
  | .leaf .none => .ok x
  | .node .assets _ => .ok x
  | .node (.utxoSet metas) _ =>
    (match sumUtxoAssets metas [] with
     | some a => .ok (assetsNode a)
     | none => .err "CannotCoerceIntoAssets")
  | _ => .err "CannotCoerceIntoAssets"

/-- Datum of the first UTxO.  Which UTxO is "first" is the `HashSet`'s choice; the model takes
the one with the least ref, and the correspondence only compares single-UTxO sets here. -/
def firstDatum : List UtxoMeta → List Expr → Expr
  | m :: _, cs => if m.hasDatum then (match cs with | d :: _ => d | [] => .leaf .none) else .leaf .none
  | [], _ => .leaf .none

def intoDatum (x : Expr) : Outcome Expr :=
  match x with
  | .leaf .none => .ok x
  | .node (.utxoSet metas) cs => .ok (firstDatum metas cs)
  | .node .list _ | .node .map _ | .node .tuple _ | .node (.struct _) _ => .ok x
  | .leaf (.bytes _) | .leaf (.number _) | .leaf (.string _) => .ok x
  | .leaf (.address b) | .leaf (.hash b) => .ok (.leaf (.bytes b))
  | _ => .err "CannotCoerceIntoDatum"

def reduceBuiltin (b : BKind) (cs : List Expr) : Outcome Expr :=
  match b, cs with
  | .add, [x, y] => arithAdd x y
  | .sub, [x, y] => arithSub x y
  | .concat, [x, y] => concat x y
  | .negate, [x] => arithNeg x
  | .property, [x, i] => indexOrErr x i
  | .noop, [x] => .ok x
  | _, _ => .err "shape:builtin"

def reduceCoerce (c : KKind) (cs : List Expr) : Outcome Expr :=
  match c, cs with
  | .noop, [x] => .ok x
  | .intoAssets, [x] => intoAssets x
  | .intoDatum, [x] => intoDatum x
  | .intoScript, [_] => errUn "into_script"
  | _, _ => .err "shape:coerce"

/-! ### reduce -/

def reduceF : Nat → Expr → Outcome Expr
  | 0, _ => .err "model:fuel"
  | _ + 1, .leaf l => .ok (.leaf l)
  | n + 1, .node k cs =>
    match k with
    | .utxoSet _ => .ok (.node k cs)
    | .param .set => (match cs with | [x] => .ok x | _ => .err "shape:set")
    | .param (.expectValue _ _) => .ok (.node k cs)
    | .param .expectFees => .ok (.node k cs)
    | .param (.expectInput _ _ _) => do
      let cs1 ← mapMO (reduceF n) cs
      let cs2 ← mapMO (reduceF n) cs1
      .ok (.node k cs2)
    | .builtin .noop => (match cs with | [x] => reduceF n x | _ => .err "shape:noop")
    | .coerce .noop => (match cs with | [x] => reduceF n x | _ => .err "shape:noop")
    | .builtin b => do
      let cs1 ← mapMO (reduceF n) cs
      if Expr.isConstantL cs1 then reduceBuiltin b cs1
      else do
        let cs2 ← mapMO (reduceF n) cs1
        if Expr.isConstantL cs2 then do
          let r ← reduceBuiltin b cs2
          .ok (.node (.builtin .noop) [r])
        else .ok (.node k cs2)
    | .coerce c => do
      let cs1 ← mapMO (reduceF n) cs
      if Expr.isConstantL cs1 then reduceCoerce c cs1
      else do
        let cs2 ← mapMO (reduceF n) cs1
        if Expr.isConstantL cs2 then do
          let r ← reduceCoerce c cs2
          .ok (.node (.coerce .noop) [r])
        else .ok (.node k cs2)
    | _ => do
      let cs1 ← mapMO (reduceF n) cs
      .ok (.node k cs1)

def Expr.reduce (e : Expr) : Outcome Expr := reduceF (e.size + 1) e

/-! ### normal forms (what C07's idempotence theorem is about; also evaluated per case by the driver) -/

namespace Expr

mutual
/-- Normal form of `reduce`. -/
def NF : Expr → Bool
  | leaf _ => true
  | node k cs =>
    match k with
    | .param .set => false
    | .param (.expectValue _ _) => true
    | .param .expectFees => true
    | .param (.expectInput _ _ _) => NFL cs
    | .builtin .noop => false
    | .coerce .noop => false
    | .builtin _ => NFL cs && !isConstantL cs
    | .coerce _ => NFL cs && !isConstantL cs
    | _ => NFL cs                       -- list, map, tuple, struct, assets, compiler, adhoc, utxoSet
def NFL : List Expr → Bool
  | [] => true
  | c :: cs => NF c && NFL cs
end

mutual
/-- Payloads of substituted parameters and the expressions held by resolved UTxOs are values. -/
def WF : Expr → Bool
  | leaf _ => true
  | node k cs =>
    match k with
    | .param .set => NFL cs
    | .param (.expectValue _ _) => true
    | .param .expectFees => true
    | .utxoSet _ => NFL cs
    | _ => WFL cs
def WFL : List Expr → Bool
  | [] => true
  | c :: cs => WF c && WFL cs
end

end Expr

/-! ### The compiler pass (`Node::apply` with the compiler as visitor) -/

/-- The chain-specific evaluation of a compiler op on its (reduced) operands. -/
abbrev ReduceOp := CKind → List Expr → Outcome Expr

mutual
def compilerPass (rop : ReduceOp) : Expr → Outcome Expr
  | .leaf l => .ok (.leaf l)
  | .node k cs =>
    match k with
    | .utxoSet _ => .ok (.node k cs)
    | .compiler c => do
      let cs' ← compilerPassL rop cs
      let cs'' ← mapMO Expr.reduce cs'      -- `op.reduce()` before `reduce_op`
      rop c cs''
    | _ => do
      let cs' ← compilerPassL rop cs
      .ok (.node k cs')
def compilerPassL (rop : ReduceOp) : List Expr → Outcome (List Expr)
  | [] => .ok []
  | c :: cs => do
    let c' ← compilerPass rop c
    let cs' ← compilerPassL rop cs
    .ok (c' :: cs')
end

/-! ### Transaction level -/

namespace Tx

def applyArgs (σ : ArgMap) (t : Tx) : Tx := t.map (Expr.applyArgs σ)
def applyInputs (ι : InputMap) (t : Tx) : Tx := t.map (Expr.applyInputs ι)
def applyFees (fees : Int) (t : Tx) : Tx := t.map (Expr.applyFees fees)
def isConstant (t : Tx) : Bool := t.slots.all Expr.isConstant
def params (t : Tx) : List (String × Ty) := t.slots.flatMap Expr.params
def queries (t : Tx) : List Expr.Query := t.slots.flatMap Expr.queries
def reduce (t : Tx) : Outcome Tx := t.mapM Expr.reduce

/-- `Node for Tx::apply`: fees, references, inputs, outputs, validity, mints, burns, adhoc,
collateral, signers, metadata — `Tx.mapM` evaluates `references` before `fees`; the order only
decides which of several errors is reported, and the correspondence compares error classes of
single-fault cases. -/
def compilerPass (rop : ReduceOp) (t : Tx) : Outcome Tx := t.mapM (Tx3.compilerPass rop)

end Tx

/-- `BTreeMap` semantics of a traversal result: the last value for a key wins; sorted keys. -/
def lastWins {α} (l : List (String × α)) : List (String × α) :=
  let ks := (l.map (·.1)).eraseDups
  let ks := sortBy (fun a b => decide (a ≤ b)) ks
  ks.filterMap fun k => (lookupS l.reverse k).map fun v => (k, v)

end Tx3
