import Tx3Model.Basic

/-
L12 — `bin/tx3c/src/tii/mod.rs` (the key sets written to the interface file) together with the
naming rule of `lowering.rs` and the duplicate check of `analyzing.rs`.
-/

namespace Tx3.Tii

/-- The name under which a declared parameter, environment value or party is required by the IR
(`lowering.rs` lower-cases it). -/
def irName (declared : String) : String := declared.toLower

/-- The key under which the interface file declares it. -/
def tiiKey (declared : String) : String := declared.toLower

structure Interface where
  params : List String
  parties : List String
  environment : List String

def interfaceOf (params parties env : List String) : Interface :=
  { params := params.map tiiKey, parties := parties.map tiiKey, environment := env.map tiiKey }

/-- `report_duplicate_names`: the names whose lower-cased form was already seen. -/
def dupNames : List String → List String → List String
  | _, [] => []
  | seen, n :: ns =>
    if seen.contains n.toLower then n :: dupNames seen ns else dupNames (n.toLower :: seen) ns

end Tx3.Tii
