import Tx3Model.Basic
import Tx3Model.Tir
import Tx3Model.PlutusData

/-
L5 — the core fragment of the source language as the generator's own syntax tree, and `⟦·⟧`, a
big-step semantics written directly on that tree: ordinary (unbounded) integer arithmetic,
multi-asset values as finite maps with pointwise addition, records as constructor applications.
Nothing in this file mentions the IR.
-/

namespace Tx3.Lang

inductive LTy where
  | int | bool | bytes | address | utxoRef | anyAsset
  | list (e : LTy)
  | custom (n : String)
  deriving Repr, DecidableEq, Inhabited

inductive LLeaf where
  | num (n : Int)
  | bool (b : Bool)
  | str (s : String)
  | hex (digits : String)
  | unit
  | id (n : String)
  | utxoRef (txid : String) (index : Nat)
  deriving Repr, DecidableEq, Inhabited

inductive LKind where
  | add | sub | neg | concat
  | prop (name : String)
  | index
  | list
  | map                                    -- children: k₁, v₁, k₂, v₂, …
  | record (ty : String) (case : Option String) (fields : List String) (spread : Bool)
                                           -- children: the field values, then the spread if any
  | anyAsset
  | call (f : String)
  deriving Repr, DecidableEq, Inhabited

inductive LExpr where
  | leaf (l : LLeaf)
  | node (k : LKind) (cs : List LExpr)
  deriving Repr, Inhabited

structure CaseDef where
  name : String
  fields : List (String × LTy)
  deriving Repr, Inhabited

structure TypeDef where
  name : String
  cases : List CaseDef
  deriving Repr, Inhabited

structure InputBlock where
  name : String
  many : Bool
  «from» : Option LExpr
  minAmount : Option LExpr
  ref : Option LExpr
  redeemer : Option LExpr
  datumIs : Option LTy
  deriving Repr, Inhabited

structure OutputBlock where
  name : Option String
  optional : Bool
  to : Option LExpr
  amount : Option LExpr
  datum : Option LExpr
  deriving Repr, Inhabited

structure MintBlock where
  amount : Option LExpr
  redeemer : Option LExpr
  deriving Repr, Inhabited

structure TxDef where
  name : String
  params : List (String × LTy)
  locals : List (String × LExpr)
  inputs : List InputBlock
  references : List (String × LExpr)
  collateral : Option InputBlock
  outputs : List OutputBlock
  mints : List MintBlock
  burns : List MintBlock
  validity : Option (Option LExpr × Option LExpr)
  signers : Option (List LExpr)
  metadata : Option (List (LExpr × LExpr))
  adhoc : List (String × List (String × LExpr))
  deriving Repr, Inhabited

structure Program where
  env : List (String × LTy)
  parties : List String
  policies : List (String × String)            -- name, hash digits
  assets : List (String × LExpr × LExpr)       -- name, policy, asset name
  types : List TypeDef
  aliases : List (String × LTy)
  txs : List TxDef
  deriving Repr, Inhabited

/-! ## Values -/

/-- A multi-asset value: (policy, asset name) ↦ quantity; lovelace is `([], [])`. Kept sorted,
without zero entries. -/
abbrev Bag := List ((Bytes × Bytes) × Int)

def keyLe (a b : Bytes × Bytes) : Bool :=
  if a.1 = b.1 then bytesLe a.2 b.2 else bytesLe a.1 b.1

namespace Bag

def get (b : Bag) (k : Bytes × Bytes) : Int :=
  match b with
  | [] => 0
  | (k', v) :: rest => if k' = k then v else get rest k

def insertAdd (k : Bytes × Bytes) (v : Int) : Bag → Bag
  | [] => [(k, v)]
  | (k', v') :: rest =>
    if k' = k then (k, v' + v) :: rest
    else if keyLe k k' then (k, v) :: (k', v') :: rest
    else (k', v') :: insertAdd k v rest

def norm (b : Bag) : Bag := b.filter fun kv => kv.2 ≠ 0

def add (a b : Bag) : Bag := norm (b.foldl (fun acc kv => insertAdd kv.1 kv.2 acc) a)
def neg (a : Bag) : Bag := a.map fun kv => (kv.1, -kv.2)
def sub (a b : Bag) : Bag := add a (neg b)
def single (k : Bytes × Bytes) (v : Int) : Bag := norm [(k, v)]
def lovelace (b : Bag) : Int := get b ([], [])
def tokens (b : Bag) : Bag := b.filter fun kv => kv.1 ≠ ([], [])

end Bag

inductive Val where
  | int (n : Int)
  | bool (b : Bool)
  | bytes (b : Bytes)
  | str (s : String)
  | addr (b : Bytes)
  | assets (a : Bag)
  | ref (txid : Bytes) (index : Nat)
  | data (d : PData)
  deriving Repr, Inhabited

/-- A value as Plutus data (what an inline datum holds). -/
def Val.toData : Val → Option PData
  | .int n => some (.int n)
  | .bool b => some (.constr (if b then 1 else 0) [])
  | .bytes b => some (.bytes b)
  | .str s => some (.bytes s.toUTF8.toList)
  | .addr b => some (.bytes b)
  | .data d => some d
  | _ => none

/-- A datum component read back as a scalar. -/
def Val.ofData : PData → Val
  | .int n => .int n
  | .bytes b => .bytes b
  | d => .data d

/-- What an input block stands for once UTxOs are assigned to it. -/
structure InputVal where
  name : String
  refs : List (Bytes × Nat)
  assets : Bag
  datum : Option PData
  datumTy : Option String          -- the record type named by `datum_is`
  deriving Repr, Inhabited

structure Env where
  prog : Program
  tx : TxDef
  ints : List (String × Int)        -- integer parameters and environment values
  byteVals : List (String × Bytes)  -- bytes parameters and environment values
  addrs : List (String × Bytes)     -- parties and address parameters
  inputs : List InputVal
  fee : Int
  mainnet : Bool
  tipSlot : Int
  /-- the chain point's timestamp, in milliseconds -/
  tipTime : Int := 1757611408
  deriving Inhabited

inductive Mode | plain | asset | datum | address
  deriving DecidableEq, Repr

def lookup {α} (m : List (String × α)) (k : String) : Option α :=
  match m with
  | [] => none
  | (k', v) :: rest => if k' = k then some v else lookup rest k

def findType (p : Program) (n : String) : Option TypeDef := p.types.find? fun t => t.name = n

def fieldIndex (fs : List (String × LTy)) (n : String) : Option Nat :=
  let rec go : List (String × LTy) → Nat → Option Nat
    | [], _ => none
    | (f, _) :: rest, i => if f = n then some i else go rest (i + 1)
  go fs 0

def caseIndex (t : TypeDef) (c : String) : Option (Nat × CaseDef) :=
  let rec go : List CaseDef → Nat → Option (Nat × CaseDef)
    | [], _ => none
    | cd :: rest, i => if cd.name = c then some (i, cd) else go rest (i + 1)
  go t.cases 0

def unsupported {α} (what : String) : Outcome α := .err ("unsupported:" ++ what)
def illTyped {α} (what : String) : Outcome α := .err ("ill-typed:" ++ what)

def pairs {α} : List α → List (α × α)
  | a :: b :: rest => (a, b) :: pairs rest
  | _ => []

mutual
/-- `⟦e⟧` under `ρ` in a syntactic position (`mode`).  `fuel` bounds the unfolding of locals. -/
def eval (ρ : Env) : Nat → Mode → LExpr → Outcome Val
  | 0, _, _ => .err "fuel"
  | fuel + 1, mode, e =>
    match e with
    | .leaf (.num n) => .ok (.int n)
    | .leaf (.bool b) => .ok (.bool b)
    | .leaf (.str s) => .ok (.str s)
    | .leaf (.hex h) =>
      (match hexDecode h with
       | some b => .ok (.bytes b)
       | none => illTyped "hex")
    | .leaf .unit => .ok (.data (.constr 0 []))
    | .leaf (.utxoRef t i) =>
      (match hexDecode t with
       | some b => .ok (.ref b i)
       | none => illTyped "utxo-ref")
    | .leaf (.id x) =>
      -- transaction scope first (locals, inputs, parameters, fees), then the program's
      (match lookup ρ.tx.locals x with
       | some le => eval ρ fuel mode le
       | none =>
         match ρ.inputs.find? (fun i => i.name = x) with
         | some iv =>
           (match mode with
            | .asset => .ok (.assets iv.assets)
            | .datum => (match iv.datum with | some d => .ok (.data d) | none => illTyped "input-without-datum")
            | _ => unsupported "input-as-plain-value")
         | none =>
           if x = "fees" then .ok (.assets (Bag.single ([], []) ρ.fee))
           else match lookup ρ.ints x with
           | some n => .ok (.int n)
           | none =>
             match lookup ρ.byteVals x with
             | some b => .ok (.bytes b)
             | none =>
               match lookup ρ.addrs x with
               | some a => .ok (.addr a)
               | none =>
                 match lookup ρ.prog.policies x with
                 | some h =>
                   (match hexDecode h with
                    | some hb =>
                      if mode = .address then .ok (.addr ((if ρ.mainnet then 0x71 else 0x70) :: hb))
                      else .ok (.bytes hb)
                    | none => illTyped "policy-hash")
                 | none => illTyped ("unbound:" ++ x))
    | .node .add [a, b] => do
      let x ← eval ρ fuel mode a
      let y ← eval ρ fuel mode b
      match x, y with
      | .int m, .int n => .ok (.int (m + n))
      | .assets m, .assets n => .ok (.assets (Bag.add m n))
      | _, _ => illTyped "add"
    | .node .sub [a, b] => do
      let x ← eval ρ fuel mode a
      let y ← eval ρ fuel mode b
      match x, y with
      | .int m, .int n => .ok (.int (m - n))
      | .assets m, .assets n => .ok (.assets (Bag.sub m n))
      | _, _ => illTyped "sub"
    | .node .neg [a] => do
      let x ← eval ρ fuel mode a
      match x with
      | .int m => .ok (.int (-m))
      | .assets m => .ok (.assets (Bag.norm (Bag.neg m)))
      | _ => illTyped "neg"
    | .node .concat [a, b] => do
      let x ← eval ρ fuel mode a
      let y ← eval ρ fuel mode b
      match x, y with
      | .bytes m, .bytes n => .ok (.bytes (m ++ n))
      | .str m, .str n => .ok (.str (m ++ n))
      | _, _ => illTyped "concat"
    | .node (.prop f) [.leaf (.id x)] =>
      -- a field of the record an input carries as its datum
      (match ρ.inputs.find? (fun i => i.name = x) with
       | some iv =>
         (match iv.datum, iv.datumTy.bind (findType ρ.prog) with
          | some (.constr _ fs), some td =>
            (match td.cases with
             | [cd] =>
               (match (fieldIndex cd.fields f).bind (fun i => fs[i]?) with
                | some d => .ok (Val.ofData d)
                | none => illTyped "no-such-field")
             | _ => illTyped "property-of-variant")
          | _, _ => illTyped "property-of-untyped-input")
       | none => unsupported "property-of-non-input")
    | .node .index [a, i] => do
      let x ← eval ρ fuel mode a
      let k ← eval ρ fuel mode i
      match x, k with
      | .data (.list xs), .int n =>
        if n < 0 then illTyped "negative-index"
        else (match xs[n.toNat]? with
              | some d => .ok (Val.ofData d)
              | none => illTyped "index-out-of-range")
      | _, _ => illTyped "index"
    | .node .list cs => do
      let vs ← evalL ρ fuel mode cs
      match vs.mapM Val.toData with
      | some ds => .ok (.data (.list ds))
      | none => illTyped "list-element"
    | .node .map cs => do
      let vs ← evalL ρ fuel mode cs
      match vs.mapM Val.toData with
      | some ds => .ok (.data (.map (pairs ds)))
      | none => illTyped "map-entry"
    | .node (.record ty case names hasSpread) cs =>
      (match findType ρ.prog ty with
       | none => illTyped "record-type"
       | some td =>
         match caseIndex td (case.getD "Default") with
         | none => illTyped "record-case"
         | some (ix, cd) => do
           let vs ← evalL ρ fuel .datum cs
           let given := names.zip vs
           let spread : Option Val := if hasSpread then vs.getLast? else none
           let fields ← mapMO (fun (fi : Nat × (String × LTy)) =>
             match lookup given fi.2.1 with
             | some v => (match v.toData with | some d => .ok d | none => illTyped "record-field")
             | none =>
               match spread with
               | some (.data (.constr _ sfs)) =>
                 (match sfs[fi.1]? with | some d => .ok d | none => illTyped "spread-arity")
               | _ => illTyped "missing-field") ((List.range cd.fields.length).zip cd.fields)
           .ok (.data (.constr ix fields)))
    | .node .anyAsset [p, n, a] => do
      let pv ← eval ρ fuel .datum p
      let nv ← eval ρ fuel .datum n
      let av ← eval ρ fuel .datum a
      match pv, nv, av with
      | .bytes pb, .bytes nb, .int q => .ok (.assets (Bag.single (pb, nb) q))
      | .bytes pb, .str ns, .int q => .ok (.assets (Bag.single (pb, ns.toUTF8.toList) q))
      | _, _, _ => illTyped "any-asset"
    | .node (.call f) args =>
      if f = "Ada" then
        (match args with
         | [a] => do
           let v ← eval ρ fuel mode a
           match v with
           | .int q => .ok (.assets (Bag.single ([], []) q))
           | _ => illTyped "ada"
         | _ => unsupported "ada-arity")
      else if f = "tip_slot" then (match args with | [] => .ok (.int ρ.tipSlot) | _ => illTyped "tip_slot-arity")
      else if f = "slot_to_time" then
        -- slots are one second long: the instant (in milliseconds) at which the slot begins
        (match args with
         | [a] => do
           let v ← eval ρ fuel mode a
           match v with
           | .int sl => .ok (.int (ρ.tipTime + (sl - ρ.tipSlot) * 1000))
           | _ => illTyped "slot_to_time"
         | _ => illTyped "slot_to_time-arity")
      else if f = "time_to_slot" then
        -- whole seconds elapsed since the chain point (towards zero), counted from its slot
        (match args with
         | [a] => do
           let v ← eval ρ fuel mode a
           match v with
           | .int t => .ok (.int (ρ.tipSlot + Int.tdiv (t - ρ.tipTime) 1000))
           | _ => illTyped "time_to_slot"
         | _ => illTyped "time_to_slot-arity")
      else
        match lookup (ρ.prog.assets.map fun a => (a.1, a.2)) f, args with
        | some (pol, an), [a] => do
          let pv ← eval ρ fuel .plain pol
          let nv ← eval ρ fuel .plain an
          let v ← eval ρ fuel mode a
          match pv, nv, v with
          | .bytes pb, .bytes nb, .int q => .ok (.assets (Bag.single (pb, nb) q))
          | .bytes pb, .str ns, .int q => .ok (.assets (Bag.single (pb, ns.toUTF8.toList) q))
          | _, _, _ => illTyped "asset-constructor"
        | _, _ => unsupported ("call:" ++ f)
    | _ => unsupported "shape"
def evalL (ρ : Env) : Nat → Mode → List LExpr → Outcome (List Val)
  | 0, _, _ => .err "fuel"
  | _ + 1, _, [] => .ok []
  | fuel + 1, mode, c :: cs => do
    let v ← eval ρ fuel mode c
    let vs ← evalL ρ (fuel + 1) mode cs
    .ok (v :: vs)
end

/-! ## What a transaction template denotes -/

structure DOutput where
  address : Bytes
  lovelace : Int
  tokens : Bag
  datum : Option PData
  deriving Repr, Inhabited

inductive DMeta | int (v : Int) | text (b : Bytes) | bytes (b : Bytes)
  deriving Repr, DecidableEq, Inhabited

structure DTx where
  inputs : List (Bytes × Nat)
  referenceInputs : List (Bytes × Nat)
  outputs : List DOutput
  mint : Bag
  validFrom : Option Int
  validUntil : Option Int
  signers : List Bytes
  metadata : List (Int × DMeta)
  fee : Int
  /-- `cardano::treasury_donation { coin: … }` -/
  donation : Option Int := none
  deriving Repr, Inhabited

def fuelOf (ρ : Env) : Nat := 64 + 4 * ρ.tx.locals.length

def evalOpt (ρ : Env) (mode : Mode) : Option LExpr → Outcome (Option Val)
  | none => .ok none
  | some e => do let v ← eval ρ (fuelOf ρ) mode e; .ok (some v)

def refLe (a b : Bytes × Nat) : Bool := if a.1 = b.1 then a.2 ≤ b.2 else bytesLe a.1 b.1

def denoteOutput (ρ : Env) (o : OutputBlock) : Outcome DOutput := do
  let to ← evalOpt ρ .address o.to
  let amount ← evalOpt ρ .asset o.amount
  let datum ← evalOpt ρ .datum o.datum
  let address ← (match to with
    | some (.addr a) => .ok a
    | some (.bytes a) => .ok a
    | _ => illTyped "output-address")
  let bag ← (match amount with
    | some (.assets b) => .ok b
    | none => .ok []
    | _ => illTyped "output-amount")
  let d ← (match datum with
    | none => .ok none
    | some v => (match v.toData with | some d => .ok (some d) | none => illTyped "output-datum"))
  .ok { address, lovelace := Bag.lovelace bag, tokens := Bag.tokens bag, datum := d }

def sumAmounts (ρ : Env) (ms : List MintBlock) : Outcome Bag :=
  ms.foldlM (fun acc m => do
    let v ← evalOpt ρ .plain m.amount
    match v with
    | some (.assets b) => .ok (Bag.add acc b)
    | none => .ok acc
    | _ => illTyped "mint-amount") []

def denoteSigner (ρ : Env) (e : LExpr) : Outcome Bytes := do
  let v ← eval ρ (fuelOf ρ) .plain e
  match v with
  | .addr a => .ok (a.drop 1 |>.take 28)          -- the payment key hash of a Shelley address
  | .bytes b => .ok b
  | _ => illTyped "signer"

def denoteMeta (ρ : Env) (kv : LExpr × LExpr) : Outcome (Int × DMeta) := do
  let k ← eval ρ (fuelOf ρ) .plain kv.1
  let v ← eval ρ (fuelOf ρ) .plain kv.2
  match k, v with
  | .int n, .int x => .ok (n, .int x)
  | .int n, .str s => .ok (n, .text s.toUTF8.toList)
  | .int n, .bytes b => .ok (n, .bytes b)
  | _, _ => illTyped "metadata"

/-- `⟦P⟧ tx ρ`. -/
def denote (ρ : Env) : Outcome DTx := do
  let t := ρ.tx
  -- `output? name { … }`: an optional output that carries nothing is left out (the others keep their order)
  let outs ← mapMO (fun (o : OutputBlock) => do let d ← denoteOutput ρ o; .ok (o.optional, d)) t.outputs
  let outputs := (outs.filter fun od => !(od.1 && od.2.lovelace == 0 && od.2.tokens.all (·.2 == 0))).map (·.2)
  let minted ← sumAmounts ρ t.mints
  let burned ← sumAmounts ρ t.burns
  let (since, untl) := match t.validity with | some (s, u) => (s, u) | none => (none, none)
  let sv ← evalOpt ρ .plain since
  let uv ← evalOpt ρ .plain untl
  let asInt : Option Val → Outcome (Option Int) := fun v =>
    match v with
    | none => .ok none
    | some (.int n) => .ok (some n)
    | _ => illTyped "validity"
  let validFrom ← asInt sv
  let validUntil ← asInt uv
  let signers ← mapMO (denoteSigner ρ) (t.signers.getD [])
  let metadata ← mapMO (denoteMeta ρ) (t.metadata.getD [])
  let refs ← mapMO (fun (r : String × LExpr) => do
    let v ← eval ρ (fuelOf ρ) .plain r.2
    match v with
    | .ref b i => .ok (b, i)
    | _ => illTyped "reference") t.references
  let donation ← (match t.adhoc.find? (fun d => d.1 = "treasury_donation") with
    | none => Outcome.ok none
    | some d =>
      match lookup d.2 "coin" with
      | none => illTyped "donation"
      | some e => do
        let v ← eval ρ (fuelOf ρ) .plain e
        match v with
        | .int n => .ok (some n)
        | _ => illTyped "donation")
  .ok {
    inputs := dedupAdj (sortBy refLe (ρ.inputs.flatMap (·.refs))),
    referenceInputs := dedupAdj (sortBy refLe refs),
    outputs, mint := Bag.sub minted burned, validFrom, validUntil, signers, metadata, fee := ρ.fee, donation }

end Tx3.Lang
