import Tx3Model.PlutusData
import Tx3Model.Json
import Tx3Model.CompilerOps

/-
L6 — `tx3-cardano/src/compile/mod.rs`, `coercion.rs`: constant TIR → abstract Conway
transaction.  Every numeric conversion is written as the Rust code performs it.  Field
evaluation order (which of several errors is reported) follows the Rust struct literals.
-/

namespace Tx3

abbrev TxIn := Bytes × Nat

structure AOutput where
  address : Bytes
  coin : Int
  assets : List (Bytes × Bytes × Int)      -- (policy, name, quantity), ordered as the BTreeMaps
  datum : Option PData
  scriptRef : Option (Nat × Bytes)         -- plutus version (0 = native) and the script bytes
  deriving Repr

/-- A vote-delegation certificate: whose stake (a key or a script credential) follows which DRep key. -/
structure Cert where
  credIsScript : Bool
  cred : Bytes
  drep : Bytes
  deriving Repr, DecidableEq

inductive Metadatum where
  | int (v : Int) | text (s : Bytes) | bytes (b : Bytes)
  deriving Repr, DecidableEq

structure ATx where
  inputs : List TxIn
  outputs : List AOutput
  fee : Int
  ttl : Option Int
  validityStart : Option Int
  mint : List (Bytes × Bytes × Int)
  withdrawals : List (Bytes × Int)
  collateral : List TxIn
  requiredSigners : List Bytes
  referenceInputs : List TxIn
  networkId : Option Int
  donation : Option Int
  certs : List Cert
  hasScriptDataHash : Bool
  hasAuxDataHash : Bool
  metadata : List (Int × Metadatum)
  redeemers : List ((Nat × Nat) × PData)    -- ((tag, index), data); tags: 0 spend 1 mint 3 reward
  /-- plutus witness scripts, per language version, in template order -/
  plutusScripts : List (Nat × List Bytes) := []
  nativeScripts : Nat := 0
  deriving Repr

structure CompileEnv where
  mainnet : Bool
  /-- plutus versions (0, 1, 2) for which the protocol parameters carry a cost model -/
  costModels : List Nat

def cerr {α} (to : String) : Outcome α := .err ("CoerceError:" ++ to)

/-! ### coercion.rs -/

def exprIntoNumberC (e : Expr) : Outcome Int :=
  match exprIntoNumber e with
  | .ok n => .ok n
  | _ => cerr "Number"

def numberIntoU64 (v : Int) (what : String) : Outcome Int := if inU64 v then .ok v else cerr what
def numberIntoI64 (v : Int) (what : String) : Outcome Int := if inI64 v then .ok v else cerr what

def bytesIntoHash (n : Nat) (b : Bytes) : Outcome Bytes :=
  if b.length = n then .ok b else cerr (toString n ++ "-byte hash")

def exprIntoBytes : Expr → Outcome Bytes
  | .leaf (.bytes b) => .ok b
  | .leaf (.string s) => .ok s.toUTF8.toList
  | .leaf (.hash b) => .ok b
  | _ => cerr "Bytes"

/-- The subset of `pallas::Address::from_bytes` the generators exercise: Shelley base (57 bytes),
enterprise and stake addresses (29 bytes); anything else is rejected.  (Pointer and Byron
addresses are not modelled; the generator does not produce them.) -/
def addressOk (b : Bytes) : Bool :=
  match b with
  | [] => false
  | h :: _ =>
    let ty := h.toNat / 16
    if ty ≤ 3 then b.length = 57
    else if ty = 6 || ty = 7 then b.length = 29
    else if ty = 14 || ty = 15 then b.length = 29
    else false

def bytesIntoAddress (b : Bytes) : Outcome Bytes := if addressOk b then .ok b else cerr "Address"

def policyIntoAddress (env : CompileEnv) (p : Bytes) : Outcome Bytes := do
  let h ← bytesIntoHash 28 p
  .ok ((if env.mainnet then 0x71 else 0x70) :: h)

def exprIntoAddress (env : CompileEnv) : Expr → Outcome Bytes
  | .leaf (.address b) => bytesIntoAddress b
  | .leaf (.hash b) => policyIntoAddress env b
  | .leaf (.bytes b) => bytesIntoAddress b
  | .leaf (.string _) => cerr "Address"     -- bech32 parsing is not modelled: only invalid strings are generated
  | _ => cerr "Address"

def exprIntoAssets : Expr → Outcome (List Expr)
  | .node .assets cs => .ok cs
  | _ => cerr "Assets"

/-- `expr_into_utxo_refs`; a UTxO set is listed by `(txid, index)`. -/
def exprIntoUtxoRefs : Expr → Outcome (List UtxoRef)
  | .leaf (.utxoRefs rs) => .ok rs
  | .node (.utxoSet metas) _ => .ok (sortBy UtxoRef.le (metas.map (·.ref)))
  | .leaf (.string s) =>                     -- `txid#index`, as the JSON boundary reads it
    (match Json.stringToUtxoRef s with
     | .ok r => .ok [r]
     | _ => cerr "UtxoRefs")
  | _ => cerr "UtxoRefs"

def utxoRefIntoInput (r : UtxoRef) : Outcome TxIn := do
  let h ← bytesIntoHash 32 r.txid
  .ok (h, r.index)

/-- `flat_map` over a `Result`: an expression that does not coerce contributes nothing. -/
def refsOrNothing (e : Expr) : List UtxoRef :=
  match exprIntoUtxoRefs e with
  | .ok rs => rs
  | _ => []

def exprIntoAddressKeyhash : Expr → Outcome Bytes
  | .leaf (.bytes b) => bytesIntoHash 28 b
  | .leaf (.address b) => do
    let a ← bytesIntoAddress b
    match a with
    | h :: rest => if h.toNat / 16 ≤ 7 then .ok (rest.take 28) else cerr "Shelley address"
    | [] => cerr "Shelley address"
  | _ => cerr "AddrKeyhash"

/-- `expr_into_reward_account`. -/
def exprIntoRewardAccount (env : CompileEnv) (e : Expr) : Outcome Bytes := do
  let a ← exprIntoAddress env e
  match a with
  | h :: rest =>
    let ty := h.toNat / 16
    let net := h.toNat % 16
    if ty = 14 || ty = 15 then .ok a
    else if ty = 0 || ty = 1 then .ok (UInt8.ofNat (0xe0 + net) :: rest.drop 28)
    else if ty = 2 || ty = 3 then .ok (UInt8.ofNat (0xf0 + net) :: rest.drop 28)
    else .err "FormatError"
  | [] => .err "FormatError"

/-! ### outputs -/

inductive CValue where
  | coin (c : Int)
  | asset (policy name : Bytes) (amount : Int)

/-- `compile_value` on one `(policy, name, amount)` triple. -/
def compileValue (p n a : Expr) : Outcome CValue := do
  let amount ← exprIntoNumberC a
  if p.isNone then .ok (.coin (asU64 amount))       -- `amount as u64`: wraps (known finding)
  else if amount > 0 then do
    let pb ← exprIntoBytes p
    let ph ← bytesIntoHash 28 pb
    let nb ← exprIntoBytes n
    let am ← exprIntoNumberC a
    let am ← numberIntoU64 am "native asset amount"
    if am = 0 then cerr "positive native asset amount" else .ok (.asset ph nb am)
  else .ok (.coin 0)                                 -- negative native amounts are dropped (known finding)

def compileValues : List Expr → Outcome (List CValue)
  | p :: n :: a :: rest => do
    let v ← compileValue p n a
    let vs ← compileValues rest
    .ok (v :: vs)
  | _ => .ok []

def insertAsset (p n : Bytes) (q : Int) : List (Bytes × Bytes × Int) → List (Bytes × Bytes × Int)
  | [] => [(p, n, q)]
  | (p', n', q') :: rest =>
    if p = p' ∧ n = n' then (p', n', q' + q) :: rest
    else if bytesLt p p' || (p = p' && bytesLt n n') then (p, n, q) :: (p', n', q') :: rest
    else (p', n', q') :: insertAsset p n q rest

/-- `aggregate_output_values`: totals, the 64-bit guard, then coin + ordered multi-asset. -/
def CValue.coinPart : CValue → Int
  | .coin c => c
  | _ => 0

def CValue.addTo (acc : List (Bytes × Bytes × Int)) : CValue → List (Bytes × Bytes × Int)
  | .asset p n q => insertAsset p n q acc
  | _ => acc

def aggregateOutput (vs : List CValue) : Outcome (Int × List (Bytes × Bytes × Int)) :=
  let coin := (vs.map CValue.coinPart).sum
  let assets := vs.foldl CValue.addTo []
  if coin > u64Max || assets.any (fun a => a.2.2 > u64Max) then cerr "output amount"
  else .ok (coin, assets)

def compileOutputCore (env : CompileEnv) (address amount : Expr) (datum : Option Expr) :
    Outcome AOutput := do
  let addr ← exprIntoAddress env address
  let cs ← exprIntoAssets amount
  let vs ← compileValues cs
  let (coin, assets) ← aggregateOutput vs
  let d ← (match datum with
    | some e => do let x ← compileDataExpr e; pure (some x)
    | none => pure none : Outcome (Option PData))
  .ok { address := addr, coin, assets, datum := d, scriptRef := none }

def compileOutputBlock (env : CompileEnv) (o : Output) : Outcome AOutput :=
  compileOutputCore env o.address o.amount (if o.datum.isNone then none else some o.datum)

def outputHasAssets : Outcome AOutput → Bool
  | .ok o => o.coin > 0 || !o.assets.isEmpty
  | _ => true

def adhocName : Expr → String
  | .node (.adhoc n _) _ => n
  | _ => ""

def adhocGet (e : Expr) (key : String) : Option Expr :=
  match e with
  | .node (.adhoc _ keys) cs => (keys.zip cs).lookup key
  | _ => none

def compileAdhocScript (version : Option Expr) (script : Option Expr) : Outcome (Nat × Bytes) := do
  let sb ← (match script with
    | some s => do let b ← exprIntoBytes s; pure (some b)
    | none => pure none : Outcome (Option Bytes))
  let v ← (match version with
    | some e => do let n ← exprIntoNumberC e; pure (asU64 n % 256)   -- `v as PlutusVersion` (u8)
    | none => pure 3 : Outcome Int)
  match sb with
  | none => .err "MissingExpression"
  | some b =>
    if v = 0 then .err "FormatError"          -- native scripts through `publish` are not generated valid
    else if v = 1 || v = 2 || v = 3 then .ok (v.toNat, b)
    else cerr "Reference script version"

def compilePublish (env : CompileEnv) (d : Expr) : Outcome AOutput := do
  let to ← (match adhocGet d "to" with | some e => .ok e | none => .err "MissingExpression" : Outcome Expr)
  let addr ← exprIntoAddress env to
  let amount ← (match adhocGet d "amount" with | some e => .ok e | none => .err "MissingExpression" : Outcome Expr)
  let cs ← exprIntoAssets amount
  let vs ← compileValues cs
  let (coin, assets) ← aggregateOutput vs
  let datum ← (match adhocGet d "datum" with
    | some e => do let x ← compileDataExpr e; pure (some x)
    | none => pure none : Outcome (Option PData))
  let sref ← (match adhocGet d "version", adhocGet d "script" with
    | some v, some s => do let r ← compileAdhocScript (some v) (some s); pure (some r)
    | _, _ => pure none : Outcome (Option (Nat × Bytes)))
  .ok { address := addr, coin, assets, datum, scriptRef := sref }

def compileOutputs (env : CompileEnv) (t : Tx) : Outcome (List AOutput) := do
  let kept := (t.outputs.map fun o => (o.optional, compileOutputBlock env o)).filter
    fun (opt, r) => !opt || outputHasAssets r
  let outs ← mapMO (fun (x : Bool × Outcome AOutput) => x.2) kept
  let pubs ← mapMO (compilePublish env) (t.adhoc.filter fun d => adhocName d == "cardano_publish")
  .ok (outs ++ pubs)

/-! ### mint -/

def compileMintAsset (isBurn : Bool) (p n a : Expr) : Outcome (Bytes × Bytes × Int) := do
  let pb ← exprIntoBytes p
  let ph ← bytesIntoHash 28 pb
  let nb ← exprIntoBytes n
  let amount ← exprIntoNumberC a
  let amount ← (if isBurn then (if inI128 (-amount) then .ok (-amount) else cerr "mint amount")
                else .ok amount : Outcome Int)
  let amount ← numberIntoI64 amount "mint amount"
  if amount = 0 then cerr "non-zero mint amount" else .ok (ph, nb, amount)

def compileMintAssets (isBurn : Bool) : List Expr → Outcome (List (Bytes × Bytes × Int))
  | p :: n :: a :: rest => do
    let x ← compileMintAsset isBurn p n a
    let xs ← compileMintAssets isBurn rest
    .ok (x :: xs)
  | _ => .ok []

def compileMintBlock (t : Tx) : Outcome (List (Bytes × Bytes × Int)) := do
  if t.mints.isEmpty && t.burns.isEmpty then .ok [] else
  let mintLists ← mapMO (fun (m : Mint) => exprIntoAssets m.amount) t.mints
  let mints ← compileMintAssets false mintLists.flatten
  let burnLists ← mapMO (fun (m : Mint) => exprIntoAssets m.amount) t.burns
  let burns ← compileMintAssets true burnLists.flatten
  let totals := (mints ++ burns).foldl (fun acc x => insertAsset x.1 x.2.1 x.2.2 acc) []
  let checked ← mapMO (fun (x : Bytes × Bytes × Int) => do
    let q ← numberIntoI64 x.2.2 "mint amount"; pure (x.1, x.2.1, q)) totals
  .ok (checked.filter fun x => x.2.2 ≠ 0)

/-! ### the body -/

def compileInputs (t : Tx) : Outcome (List TxIn) :=
  mapMO utxoRefIntoInput (t.inputs.flatMap fun i => refsOrNothing i.utxos)

def compileReferenceInputs (t : Tx) : Outcome (List TxIn) :=
  mapMO utxoRefIntoInput (t.references.flatMap refsOrNothing)

def compileCollateral (t : Tx) : Outcome (List TxIn) :=
  mapMO utxoRefIntoInput ((t.collateral.filter fun e => !e.isNone).flatMap refsOrNothing)

def compileValidity (t : Tx) : Outcome (Option Int × Option Int) := do
  let conv (e : Expr) : Outcome (Option Int) :=
    if e.isNone then .ok none else do
      let n ← exprIntoNumberC e
      let s ← numberIntoU64 n "slot"
      .ok (some s)
  match t.validity with
  | none => .ok (none, none)
  | some (since, untl) => do
    let s ← conv since
    let u ← conv untl
    .ok (s, u)

def insertKV {β} (k : Bytes) (v : β) : List (Bytes × β) → List (Bytes × β)
  | [] => [(k, v)]
  | (k', v') :: rest =>
    if k = k' then (k, v) :: rest
    else if bytesLt k k' then (k, v) :: (k', v') :: rest
    else (k', v') :: insertKV k v rest

def compileWithdrawalDirective (env : CompileEnv) (d : Expr) : Outcome (Bytes × Int) := do
  let cred ← (match adhocGet d "credential" with | some e => .ok e | none => .err "MissingExpression" : Outcome Expr)
  let acct ← exprIntoRewardAccount env cred
  let amount ← (match adhocGet d "amount" with | some e => .ok e | none => .err "MissingExpression" : Outcome Expr)
  let n ← exprIntoNumberC amount
  let n ← numberIntoU64 n "withdrawal amount"
  .ok (acct, n)

def compileWithdrawals (env : CompileEnv) (t : Tx) : Outcome (List (Bytes × Int)) := do
  let rec go : List Expr → List (Bytes × Int) → Outcome (List (Bytes × Int))
    | [], acc => .ok acc
    | d :: rest, acc => do
      let w ← compileWithdrawalDirective env d
      -- a second directive for the same reward account is refused
      if acc.any (fun x => x.1 = w.1) then .err "ConsistencyError" else go rest (insertKV w.1 w.2 acc)
  go (t.adhoc.filter fun d => adhocName d == "withdrawal") []

/-- `address_into_stake_credential`: the delegation part of a base address (its last 28 bytes; a script when the
header says so), or the payload of a stake address. -/
def exprIntoStakeCredential (env : CompileEnv) (e : Expr) : Outcome (Bool × Bytes) := do
  let a ← exprIntoAddress env e
  match a with
  | h :: rest =>
    let ty := h.toNat / 16
    if ty ≤ 3 then .ok (ty = 2 || ty = 3, rest.drop 28)
    else if ty = 14 then .ok (false, rest)
    else if ty = 15 then .ok (true, rest)
    else cerr "StakeCredential"
  | [] => cerr "StakeCredential"

def compileCerts (env : CompileEnv) (t : Tx) : Outcome (List Cert) :=
  mapMO (fun d => do
    let stake ← (match adhocGet d "stake" with | some e => .ok e | none => .err "MissingExpression" : Outcome Expr)
    let (script, cred) ← exprIntoStakeCredential env stake
    let drep ← (match adhocGet d "drep" with | some e => .ok e | none => .err "MissingExpression" : Outcome Expr)
    let b ← exprIntoBytes drep
    let h ← bytesIntoHash 28 b
    pure ({ credIsScript := script, cred, drep := h } : Cert)) (t.adhoc.filter fun d => adhocName d == "vote_delegation_certificate")

def compileRequiredSigners (t : Tx) : Outcome (List Bytes) :=
  match t.signers with
  | none => .ok []
  | some ss => mapMO exprIntoAddressKeyhash ss

def compileDonation (t : Tx) : Outcome (Option Int) :=
  match (t.adhoc.find? fun d => adhocName d == "treasury_donation").bind (adhocGet · "coin") with
  | none => .ok none
  | some e => do
    let n ← exprIntoNumberC e
    let c ← numberIntoU64 n "donation amount"
    if c = 0 then cerr "PositiveCoin" else .ok (some c)

/-! ### redeemers -/

def insertRedeemer (k : Nat × Nat) (d : PData) :
    List ((Nat × Nat) × PData) → Outcome (List ((Nat × Nat) × PData))
  | [] => .ok [(k, d)]
  | (k', d') :: rest =>
    if k = k' then (if d' == d then .ok ((k', d') :: rest) else .err "ConsistencyError")
    else if k.1 < k'.1 || (k.1 = k'.1 && k.2 < k'.2) then .ok ((k, d) :: (k', d') :: rest)
    else do let r ← insertRedeemer k d rest; .ok ((k', d') :: r)

def txInLe (a b : TxIn) : Bool := if a.1 = b.1 then a.2 ≤ b.2 else bytesLe a.1 b.1

def indexOf? {α} [DecidableEq α] (x : α) (l : List α) : Option Nat :=
  let i := l.idxOf x
  if i < l.length then some i else none

def compileSpendRedeemers (t : Tx) (bodyInputs : List TxIn) :
    Outcome (List ((Nat × Nat) × PData)) := do
  let sorted := dedupAdj (sortBy txInLe bodyInputs)
  let per ← mapMO (fun (i : Input) => do
    let utxos ← exprIntoUtxoRefs i.utxos
    if utxos.isEmpty then .err "MissingExpression" else
    if i.redeemer.isNone then .ok [] else
      mapMO (fun (r : UtxoRef) =>
        match indexOf? (r.txid, r.index % 2^32) sorted with
        | some ix => do let d ← tryAsData i.redeemer; .ok ((0, ix), d)
        | none => .err "ConsistencyError") utxos) t.inputs
  .ok per.flatten

def mintPolicies (mint : List (Bytes × Bytes × Int)) : List Bytes := dedupAdj (mint.map (·.1))

def compileMintRedeemers (blocks : List Mint) (mint : List (Bytes × Bytes × Int)) :
    Outcome (List ((Nat × Nat) × PData)) := do
  let per ← mapMO (fun (m : Mint) => do
    if m.redeemer.isNone then .ok [] else
    let cs ← exprIntoAssets m.amount
    if cs.isEmpty then .err "MissingExpression" else
    let rec policies : List Expr → List Bytes → Outcome (List Bytes)
      | p :: _ :: _ :: rest, acc => do
        let pb ← exprIntoBytes p
        let ph ← bytesIntoHash 28 pb
        policies rest (if acc.contains ph then acc else acc ++ [ph])
      | _, acc => .ok acc
    let ps ← policies cs []
    mapMO (fun (p : Bytes) =>
      match indexOf? p (mintPolicies mint) with
      | some ix => do let d ← tryAsData m.redeemer; .ok ((1, ix), d)
      | none => .err "ConsistencyError") ps) blocks
  .ok per.flatten

def compileWithdrawalRedeemers (env : CompileEnv) (t : Tx) (ws : List (Bytes × Int)) :
    Outcome (List ((Nat × Nat) × PData)) := do
  let per ← mapMO (fun d =>
    match adhocGet d "redeemer" with
    | none => .ok []
    | some r =>
      if r.isNone then .ok [] else do
        let cred ← (match adhocGet d "credential" with | some e => .ok e | none => .err "MissingExpression" : Outcome Expr)
        let acct ← exprIntoRewardAccount env cred
        match indexOf? acct (ws.map (·.1)) with
        | some ix => do let dd ← tryAsData r; .ok [((3, ix), dd)]
        | none => .err "ConsistencyError")
    (t.adhoc.filter fun d => adhocName d == "withdrawal")
  .ok per.flatten

def compileRedeemers (env : CompileEnv) (t : Tx) (inputs : List TxIn)
    (mint : List (Bytes × Bytes × Int)) (ws : List (Bytes × Int)) :
    Outcome (List ((Nat × Nat) × PData)) := do
  let s ← compileSpendRedeemers t inputs
  let m ← compileMintRedeemers t.mints mint
  let b ← compileMintRedeemers t.burns mint
  let w ← compileWithdrawalRedeemers env t ws
  let rec ins : List ((Nat × Nat) × PData) → List ((Nat × Nat) × PData) →
      Outcome (List ((Nat × Nat) × PData))
    | [], acc => .ok acc
    | (k, d) :: rest, acc => do let acc' ← insertRedeemer k d acc; ins rest acc'
  ins (s ++ m ++ b ++ w) []

/-! ### witnesses, auxiliary data -/

def nativeWitnessOk (t : Tx) : Outcome Nat := do
  let scripts := (t.adhoc.filter fun d => adhocName d == "native_witness").filterMap fun d =>
    match adhocGet d "script" with
    | some e => (match exprIntoBytes e with | .ok b => some b | _ => none)
    | none => none
  -- the only native script the generators emit as valid is `[0, keyhash28]`
  if scripts.all (fun b => b.length = 32 && b.take 4 == [0x82, 0x00, 0x58, 0x1c]) then .ok scripts.length
  else .err "FormatError"

/-- `compile_adhoc_plutus_witness::<V>`: the scripts of the `plutus_witness` directives whose
version is `V`, in template order. -/
def plutusWitnesses (t : Tx) : List (Nat × Bytes) :=
  (t.adhoc.filter fun d => adhocName d == "plutus_witness").filterMap fun d =>
    match adhocGet d "version", adhocGet d "script" with
    | some v, some s =>
      (match exprIntoNumberC v, exprIntoBytes s with
       | .ok n, .ok b => if n = 1 || n = 2 || n = 3 then some (n.toNat, b) else none
       | _, _ => none)
    | _, _ => none

def plutusWitnessVersions (t : Tx) : List Nat := (plutusWitnesses t).map (·.1)

def plutusScriptsByVersion (t : Tx) : List (Nat × List Bytes) :=
  [1, 2, 3].filterMap fun v =>
    let ss := ((plutusWitnesses t).filter fun x => x.1 = v).map (·.2)
    if ss.isEmpty then none else some (v, ss)

def exprIntoMetadatum : Expr → Outcome Metadatum
  | .leaf (.number n) =>
    if -(2:Int)^64 ≤ n ∧ n < (2:Int)^64 then .ok (.int n) else cerr "Metadatum int"
  | .leaf (.string s) => .ok (.text s.toUTF8.toList)
  | .leaf (.bytes b) => .ok (.bytes b)
  | _ => cerr "Metadatum"

def insertMeta (k : Int) (v : Metadatum) : List (Int × Metadatum) → List (Int × Metadatum)
  | [] => [(k, v)]
  | (k', v') :: rest =>
    if k = k' then (k, v) :: rest
    else if k < k' then (k, v) :: (k', v') :: rest
    else (k', v') :: insertMeta k v rest

def compileAuxiliaryData (t : Tx) : Outcome (List (Int × Metadatum)) := do
  let kvs ← mapMO (fun (m : Metadata) => do
    let k ← exprIntoNumberC m.key
    let k ← numberIntoU64 k "metadata label"
    let v ← exprIntoMetadatum m.value
    pure (k, v)) t.metadata
  .ok (kvs.foldl (fun acc kv => insertMeta kv.1 kv.2 acc) [])

/-- `infer_plutus_version`: v1 witness → 0, v2 → 1, v3 or none → 2. -/
def inferPlutusVersion (t : Tx) : Nat :=
  let pv := plutusWitnessVersions t
  if pv.contains 1 then 0 else if pv.contains 2 then 1 else 2

/-! ### entry point -/

def compileAbs (env : CompileEnv) (t : Tx) : Outcome ATx := do
  let (since, untl) ← compileValidity t
  let inputs ← compileInputs t
  let outputs ← compileOutputs env t
  let feeN ← exprIntoNumberC t.fees
  let fee ← numberIntoU64 feeN "fee"
  let certs ← compileCerts env t
  let mint ← compileMintBlock t
  let refs ← compileReferenceInputs t
  let ws ← compileWithdrawals env t
  let coll ← compileCollateral t
  let signers ← compileRequiredSigners t
  let donation ← compileDonation t
  let redeemers ← compileRedeemers env t inputs mint ws
  let native ← nativeWitnessOk t
  let metadata ← compileAuxiliaryData t
  -- script data hash: the cost model of the inferred version is needed only with redeemers
  if !redeemers.isEmpty && !(env.costModels.contains (inferPlutusVersion t)) then .err "MissingExpression" else
  .ok { inputs, outputs, fee, ttl := untl, validityStart := since, mint, withdrawals := ws,
        collateral := coll, requiredSigners := signers, referenceInputs := refs,
        networkId := some (if env.mainnet then 1 else 0), donation, certs,
        hasScriptDataHash := !redeemers.isEmpty, hasAuxDataHash := !metadata.isEmpty,
        metadata, redeemers, plutusScripts := plutusScriptsByVersion t, nativeScripts := native }

end Tx3
