import Tx3Model.LangAdhoc

/-
L5/L11 — `analyzing::analyze` as it stands after the lowerability fix, `lowering::lower` (by
name) and `Workspace::lower` (the facade that unwraps), over the generator's syntax tree.

Name resolution itself (`Program::analyze`: scopes, symbols, the few type expectations) enters as
a parameter `core : Program → List Diag` — an arbitrary report.  What is modelled is what the
property is about: the way the report, the trial lowering and the facade's `unwrap` are chained.
-/

namespace Tx3.Lang

open Tx3

inductive Diag where
  /-- any diagnostic of `Program::analyze` (NotInScope, InvalidSymbol, DuplicateDefinition, …) -/
  | core (kind : String)
  /-- `Error::NotLowerable { tx, reason }` -/
  | notLowerable (tx : String) (reason : String)
  deriving Repr, DecidableEq, Inhabited

/-- `lowering::lower_tx(tx)` for a transaction of `p`. -/
def lowerOf (p : Program) (tx : TxDef) : Outcome Tx := lowerTxFull { prog := p, tx }

/-- `lowering::lower(ast, template)`: the *first* transaction carrying that name. -/
def lowerByName (p : Program) (name : String) : Outcome Tx :=
  match p.txs.find? (fun t => t.name == name) with
  | some tx => lowerOf p tx
  | none => lerr "InvalidAst:tx not found"

/-- The loop at the end of `analyze`, over any per-transaction lowering function: one
`NotLowerable` per transaction it rejects, in source order; a panic inside lowering is a panic of
`analyze`. -/
def trialWith {α β} (name : α → String) (low : α → Outcome β) : List α → Outcome (List Diag)
  | [] => .ok []
  | tx :: rest =>
    match low tx with
    | .ok _ => trialWith name low rest
    | .err e =>
      (match trialWith name low rest with
       | .ok ds => .ok (.notLowerable (name tx) e :: ds)
       | .err x => .err x
       | .panic s => .panic s)
    | .panic s => .panic s

def trial (p : Program) (txs : List TxDef) : Outcome (List Diag) := trialWith TxDef.name (lowerOf p) txs

/-- `analyze` over an arbitrary report and lowering function (what the correspondence check runs on
the observed name-resolution report and the observed lowering results). -/
def analyzeWith {α β} (coreReport : List Diag) (name : α → String) (low : α → Outcome β) (txs : List α) :
    Outcome (List Diag) :=
  match coreReport with
  | [] => trialWith name low txs
  | ds => .ok ds

/-- `analyzing::analyze`: the name-resolution report; only when it is empty, the trial lowering. -/
def analyze (core : Program → List Diag) (p : Program) : Outcome (List Diag) :=
  match core p with
  | [] => trial p p.txs
  | ds => .ok ds

/-- `Workspace::lower`: an error when the report is not empty, otherwise
`lowering::lower(ast, &tx.name).unwrap()` for every transaction. -/
def facadeLower (core : Program → List Diag) (p : Program) : Outcome (List (String × Tx)) :=
  match analyze core p with
  | .panic s => .panic s
  | .err e => .err e
  | .ok (_ :: _) => .err "Analyzing"
  | .ok [] =>
    mapMO (fun (tx : TxDef) =>
      match lowerByName p tx.name with
      | .ok t => .ok (tx.name, t)
      | .err e => .panic ("called `Result::unwrap()` on an `Err` value: " ++ e)
      | .panic s => .panic s) p.txs

end Tx3.Lang
