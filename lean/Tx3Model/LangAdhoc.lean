import Tx3Model.LangLower

/-
L5 — `cardano.rs`: lowering of the chain-specific directives of a transaction (`cardano::withdrawal`,
`cardano::treasury_donation`, `cardano::plutus_witness`, `cardano::native_witness`, `cardano::publish`,
`cardano::vote_delegation_certificate`) into ad-hoc directives of the IR, over the generator's syntax tree
(`TxDef.adhoc`: the directive's name and its fields as written).  The IR keeps a directive's fields in a hash map; the
model keeps them sorted by key (what the canonical form of the correspondence compares), a later field of the same name
replacing an earlier one.
-/

namespace Tx3.Lang

open Tx3

/-- Insertion into a key-sorted association list; an existing key is overwritten. -/
def putField (k : String) (v : Expr) : List (String × Expr) → List (String × Expr)
  | [] => [(k, v)]
  | (k', v') :: rest =>
    if k = k' then (k, v) :: rest
    else if k < k' then (k, v) :: (k', v') :: rest
    else (k', v') :: putField k v rest

def adhocNode (name : String) (fields : List (String × Expr)) : Expr :=
  .node (.adhoc name (fields.map (·.1))) (fields.map (·.2))

/-- The context a field of a directive is lowered in. -/
def fieldCtx (directive field : String) (ctx : Ctx) : Ctx :=
  if directive = "cardano_publish" then
    (if field = "to" then ctx.enterAddress else if field = "amount" then ctx.enterAsset
     else if field = "datum" then ctx.enterDatum else ctx)
  else ctx

/-- The name a directive goes by in the IR. -/
def irDirectiveName (written : String) : String :=
  if written = "publish" then "cardano_publish" else written

/-- `IntoLower for CardanoBlock`. -/
def lowerDirective (s : Scope) (fuel : Nat) (ctx : Ctx) (written : String) (fields : List (String × LExpr)) :
    Outcome Expr :=
  let name := irDirectiveName written
  if name = "withdrawal" then
    -- `from`, `amount` are required; the redeemer defaults to nothing; the credential goes under its own key
    match Lang.lookup fields "from", Lang.lookup fields "amount" with
    | none, _ => lerr "MissingRequiredField:from"
    | _, none => lerr "MissingRequiredField:amount"
    | some f, some a => do
      let credential ← lowerE s fuel ctx f
      let amount ← lowerE s fuel ctx a
      let redeemer ← (match Lang.lookup fields "redeemer" with
        | some r => lowerE s fuel ctx r
        | none => .ok none')
      .ok (adhocNode name (putField "credential" credential (putField "amount" amount (putField "redeemer" redeemer []))))
  -- `todo!()` in the code; the parser refuses the block ("not supported yet"), so no parsed program reaches it
  else if name = "stake_delegation_certificate" then lerr "unsupported:stake_delegation_certificate"
  else do
    -- the other directives carry their fields as written
    let lowered ← mapMO (fun (kv : String × LExpr) => do
      let v ← lowerE s fuel (fieldCtx name kv.1 ctx) kv.2
      .ok (kv.1, v)) fields
    .ok (adhocNode name (lowered.foldl (fun acc kv => putField kv.1 kv.2 acc) []))

/-- `IntoLower for TxDef`, chain-specific directives included. -/
def lowerTxFull (s : Scope) : Outcome Tx := do
  let t ← lowerTx s
  let adhoc ← mapMO (fun (d : String × List (String × LExpr)) => lowerDirective s (lowerFuel s) {} d.1 d.2) s.tx.adhoc
  .ok { t with adhoc }

end Tx3.Lang
