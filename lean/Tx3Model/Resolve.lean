import Tx3Model.Basic

/-
`tx3-resolver/src/lib.rs`: the resolve loop as a state machine over
`(last_eval, rounds, compiler state)`.  One evaluation pass (`eval_pass` up to and including
`compiler.compile`) is a parameter `pass : fee → compiler state → outcome`: what it does inside
is modelled in `Reduce`, `Select`, `Compile`; what the loop needs from it is stated as
`PassOK` and tied to the real code per case on the recorded trace of passes.
-/

namespace Tx3

/-- What `CompiledTx` equality looks at, plus what the payload carries. -/
structure Eval where
  payload : Bytes
  hash : Bytes
  fee : Int             -- reported: `eval_size_fees(payload)`
  deriving DecidableEq, Repr

structure FeeParams where
  a : Int               -- min_fee_coefficient
  b : Int               -- min_fee_constant
  margin : Int          -- extra_fees (default 200 000)

def FeeParams.sizeFee (p : FeeParams) (len : Nat) : Int := (len : Int) * p.a + p.b + p.margin

/-- `ops::eval_size_fees`: the estimate in checked 64-bit arithmetic - `len * a`, `+ b`, `+ margin`, each step refused
when it leaves `u64` (all operands are non-negative, so that is exactly when the partial sum does). -/
def FeeParams.evalSizeFees (p : FeeParams) (len : Nat) : Outcome Int :=
  if (len : Int) * p.a < 2^64 ∧ (len : Int) * p.a + p.b < 2^64 ∧ p.sizeFee len < 2^64 then .ok (p.sizeFee len)
  else .err "CoerceError:fee"

/-- One pass: the fee to apply and the compiler's remembered state in, an evaluation and the new
compiler state out. -/
abbrev Pass (σ : Type) := Int → σ → Outcome (Eval × σ)

/-- `resolve_tx` after `safe_apply_args` and `compiler.reset()`: iterate `eval_pass` until the
evaluation repeats; more than `maxRounds` changed evaluations is an error. -/
def resolveLoop {σ} (pass : Pass σ) (maxRounds : Nat) : Nat → Option Eval → Nat → σ → Outcome Eval
  | 0, _, _, _ => .err "model:fuel"
  | fuel + 1, last, rounds, cs =>
    match pass ((last.map (·.fee)).getD 0) cs with
    | .ok (e, cs') =>
      (match last with
       | some l =>
         if e = l then .ok l
         else if rounds > maxRounds then .err "CompileError:ConsistencyError"
         else resolveLoop pass maxRounds fuel (some e) (rounds + 1) cs'
       | none =>
         if rounds > maxRounds then .err "CompileError:ConsistencyError"
         else resolveLoop pass maxRounds fuel (some e) (rounds + 1) cs')
    | .err x => .err x
    | .panic s => .panic s

/-- `resolve_tx`: the compiler state an earlier resolution left behind is dropped first. -/
def resolveTx {σ} (pass : Pass σ) (fresh : σ) (maxOptimizeRounds : Nat) (_leftBehind : σ) : Outcome Eval :=
  let maxRounds := max maxOptimizeRounds 3
  resolveLoop pass maxRounds (maxRounds + 3) none 0 fresh

end Tx3
