import Tx3Model.Basic

/-
L7 — RFC 8949 data items: a reader (used as an independent observer of the payload the real
compiler emits) and a writer for the definite-length forms plus chunked byte strings.
-/

namespace Tx3.Cbor

inductive Item where
  | int (v : Int)                       -- major types 0 and 1
  | bytes (b : Bytes)                   -- definite-length byte string
  | bytesIndef (chunks : List Bytes)    -- indefinite-length byte string
  | text (b : Bytes)                    -- text string, as UTF-8 bytes
  | array (xs : List Item)
  | arrayIndef (xs : List Item)
  | map (kvs : List (Item × Item))
  | tag (t : Nat) (x : Item)
  | simple (n : Nat)                    -- 20 false, 21 true, 22 null, 23 undefined
  | float (raw : Bytes)
  deriving Repr

/-! ### Reader -/

def beNat (bs : Bytes) : Nat := bs.foldl (fun acc b => acc * 256 + b.toNat) 0

/-- The argument of a head byte: `(value, rest)`; `none` for reserved or indefinite infos. -/
def readArg (info : Nat) (rest : Bytes) : Option (Nat × Bytes) :=
  if info < 24 then some (info, rest)
  else
    let n := if info = 24 then 1 else if info = 25 then 2 else if info = 26 then 4
             else if info = 27 then 8 else 0
    if n = 0 then none
    else if rest.length < n then none
    else some (beNat (rest.take n), rest.drop n)

def takeN (n : Nat) (bs : Bytes) : Option (Bytes × Bytes) :=
  if bs.length < n then none else some (bs.take n, bs.drop n)

mutual
def readItem : Nat → Bytes → Option (Item × Bytes)
  | 0, _ => none
  | _ + 1, [] => none
  | fuel + 1, b :: rest =>
    let major := b.toNat / 32
    let info := b.toNat % 32
    if major = 0 then do
      let (n, r) ← readArg info rest
      pure (.int n, r)
    else if major = 1 then do
      let (n, r) ← readArg info rest
      pure (.int (-1 - (n : Int)), r)
    else if major = 2 then
      if info = 31 then do
        let (chunks, r) ← readChunks fuel rest
        pure (.bytesIndef chunks, r)
      else do
        let (n, r) ← readArg info rest
        let (bs, r') ← takeN n r
        pure (.bytes bs, r')
    else if major = 3 then
      if info = 31 then do
        let (chunks, r) ← readChunks fuel rest
        pure (.text chunks.flatten, r)
      else do
        let (n, r) ← readArg info rest
        let (bs, r') ← takeN n r
        pure (.text bs, r')
    else if major = 4 then
      if info = 31 then do
        let (xs, r) ← readUntilBreak fuel rest
        pure (.arrayIndef xs, r)
      else do
        let (n, r) ← readArg info rest
        let (xs, r') ← readN fuel n r
        pure (.array xs, r')
    else if major = 5 then
      if info = 31 then do
        let (xs, r) ← readUntilBreak fuel rest
        pure (.map (pairUp xs), r)
      else do
        let (n, r) ← readArg info rest
        let (xs, r') ← readN fuel (2 * n) r
        pure (.map (pairUp xs), r')
    else if major = 6 then do
      let (t, r) ← readArg info rest
      let (x, r') ← readItem fuel r
      pure (.tag t x, r')
    else
      if info < 24 then some (.simple info, rest)
      else if info = 24 then (match rest with | s :: r => some (.simple s.toNat, r) | [] => none)
      else if info = 25 then do let (bs, r) ← takeN 2 rest; pure (.float bs, r)
      else if info = 26 then do let (bs, r) ← takeN 4 rest; pure (.float bs, r)
      else if info = 27 then do let (bs, r) ← takeN 8 rest; pure (.float bs, r)
      else none

def readN : Nat → Nat → Bytes → Option (List Item × Bytes)
  | _, 0, bs => some ([], bs)
  | 0, _ + 1, _ => none
  | fuel + 1, n + 1, bs => do
    let (x, r) ← readItem fuel bs
    let (xs, r') ← readN fuel n r
    pure (x :: xs, r')

def readUntilBreak : Nat → Bytes → Option (List Item × Bytes)
  | 0, _ => none
  | _ + 1, [] => none
  | fuel + 1, b :: rest =>
    if b = 0xff then some ([], rest) else do
      let (x, r) ← readItem fuel (b :: rest)
      let (xs, r') ← readUntilBreak fuel r
      pure (x :: xs, r')

def readChunks : Nat → Bytes → Option (List Bytes × Bytes)
  | 0, _ => none
  | _ + 1, [] => none
  | fuel + 1, b :: rest =>
    if b = 0xff then some ([], rest) else
    match readArg (b.toNat % 32) rest with
    | some (n, r) =>
      (match takeN n r with
       | some (bs, r') =>
         (match readChunks fuel r' with
          | some (cs, r'') => some (bs :: cs, r'')
          | none => none)
       | none => none)
    | none => none

def pairUp : List Item → List (Item × Item)
  | k :: v :: rest => (k, v) :: pairUp rest
  | _ => []
end

/-- Decode exactly one item spanning the whole input. -/
def decode (bs : Bytes) : Option Item :=
  match readItem (2 * bs.length + 8) bs with
  | some (x, []) => some x
  | _ => none

/-- Big-endian minimal byte representation of a natural number (empty for 0). -/
def natToBytes (n : Nat) : Bytes :=
  if _h : n = 0 then [] else natToBytes (n / 256) ++ [UInt8.ofNat (n % 256)]
termination_by n
decreasing_by omega

/-! ### Writer (definite lengths; indefinite only for chunked byte strings and arrays) -/

def natToBE (n : Nat) (width : Nat) : Bytes :=
  (List.range width).reverse.map fun i => UInt8.ofNat ((n / 256 ^ i) % 256)

def head (major : Nat) (n : Nat) : Bytes :=
  let m := major * 32
  if n < 24 then [UInt8.ofNat (m + n)]
  else if n < 256 then UInt8.ofNat (m + 24) :: natToBE n 1
  else if n < 65536 then UInt8.ofNat (m + 25) :: natToBE n 2
  else if n < 4294967296 then UInt8.ofNat (m + 26) :: natToBE n 4
  else UInt8.ofNat (m + 27) :: natToBE n 8

mutual
def encode : Item → Bytes
  | .int v => if v ≥ 0 then head 0 v.toNat else head 1 (-1 - v).toNat
  | .bytes b => head 2 b.length ++ b
  | .bytesIndef chunks => 0x5f :: (chunks.flatMap fun c => head 2 c.length ++ c) ++ [0xff]
  | .text b => head 3 b.length ++ b
  | .array xs => head 4 xs.length ++ encodeL xs
  | .arrayIndef xs => 0x9f :: encodeL xs ++ [0xff]
  | .map kvs => head 5 kvs.length ++ encodeKV kvs
  | .tag t x => head 6 t ++ encode x
  | .simple n => if n < 24 then [UInt8.ofNat (224 + n)] else [0xf8, UInt8.ofNat n]
  | .float raw => UInt8.ofNat (224 + (if raw.length = 2 then 25 else if raw.length = 4 then 26 else 27)) :: raw
def encodeL : List Item → Bytes
  | [] => []
  | x :: xs => encode x ++ encodeL xs
def encodeKV : List (Item × Item) → Bytes
  | [] => []
  | (k, v) :: rest => encode k ++ encode v ++ encodeKV rest
end

/-! ### What the writer can write: the executable side of `Item.WF` (Tx3Proofs/Lemmas/CborRoundtrip) -/

mutual
def Item.wfb : Item → Bool
  | .int v => decide (-(2 ^ 64 : Int) ≤ v) && decide (v < 2 ^ 64)
  | .bytes b => decide (b.length < 2 ^ 64)
  | .bytesIndef cs => cs.all fun c => decide (c.length < 2 ^ 64)
  | .text b => decide (b.length < 2 ^ 64)
  | .array xs => decide (xs.length < 2 ^ 64) && wfbL xs
  | .arrayIndef xs => wfbL xs
  | .map kvs => decide (kvs.length < 2 ^ 64) && wfbKV kvs
  | .tag t x => decide (t < 2 ^ 64) && x.wfb
  | .simple n => decide (n < 256)
  | .float raw => raw.length == 2 || raw.length == 4 || raw.length == 8
def wfbL : List Item → Bool
  | [] => true
  | x :: xs => x.wfb && wfbL xs
def wfbKV : List (Item × Item) → Bool
  | [] => true
  | (k, v) :: r => k.wfb && v.wfb && wfbKV r
end

/-! ### Accessors used by the Conway reader -/

def Item.asInt? : Item → Option Int
  | .int v => some v
  | _ => none

def Item.asBytes? : Item → Option Bytes
  | .bytes b => some b
  | .bytesIndef cs => some cs.flatten
  | _ => none

def Item.asArray? : Item → Option (List Item)
  | .array xs => some xs
  | .arrayIndef xs => some xs
  | _ => none

/-- Sets may be wrapped in tag 258. -/
def Item.asSet? : Item → Option (List Item)
  | .tag 258 x => x.asArray?
  | x => x.asArray?

def Item.asMap? : Item → Option (List (Item × Item))
  | .map kvs => some kvs
  | _ => none

def lookupInt (kvs : List (Item × Item)) (k : Int) : Option Item :=
  match kvs with
  | [] => none
  | (.int k', v) :: rest => if k' = k then some v else lookupInt rest k
  | _ :: rest => lookupInt rest k

end Tx3.Cbor
