import Tx3Model.Wire

/-
L9 — a reader for the TIR wire format: the inverse of `Wire.expr` / `Wire.tx` on data items
(what serde's derived `Deserialize` computes on the items ciborium hands it, restricted to the
shapes the encoder produces).  `C11` proves it inverts the encoder on every well-shaped tree; the
driver runs it on the bytes the real `to_bytes` produced.
-/

namespace Tx3.Wire
open Cbor

/-- Text bytes back to a string (`none` when they are not UTF-8). -/
def strOf (b : Bytes) : Option String :=
  if h : ByteArray.IsValidUTF8 ⟨b.toArray⟩ then some (String.ofByteArray ⟨b.toArray⟩ h) else none

def unTxt : Item → Option String
  | .text b => strOf b
  | _ => none

def unFlag : Item → Option Bool
  | .simple n => if n = 21 then some true else if n = 20 then some false else none
  | _ => none

def unNat : Item → Option Nat
  | .int v => if 0 ≤ v then some v.toNat else none
  | _ => none

/-- A struct with exactly these field names, in this order: the field values. -/
def unStruct (names : List String) (it : Item) : Option (List Item) :=
  match it with
  | .map kvs =>
    if kvs.map (fun kv => unTxt kv.1) = names.map some then some (kvs.map (·.2)) else none
  | _ => none

/-- An externally tagged variant: its name and payload. -/
def unVariant : Item → Option (String × Item)
  | .map [(k, p)] => (unTxt k).map fun s => (s, p)
  | _ => none

def unTy (it : Item) : Option Ty :=
  match it with
  | .text b =>
    (strOf b).bind fun s =>
      if s = "Undefined" then some .undefined else if s = "Unit" then some .unit
      else if s = "Int" then some .int else if s = "Bool" then some .bool
      else if s = "Bytes" then some .bytes else if s = "Address" then some .address
      else if s = "Utxo" then some .utxo else if s = "UtxoRef" then some .utxoRef
      else if s = "AnyAsset" then some .anyAsset else if s = "List" then some .list
      else if s = "Map" then some .map else none
  | other =>
    (unVariant other).bind fun sp =>
      if sp.1 = "Custom" then (unTxt sp.2).map Ty.custom else none

def unUtxoRef (it : Item) : Option UtxoRef :=
  (unStruct ["txid", "index"] it).bind fun fs =>
    match fs with
    | [t, i] => (readBytes t).bind fun txid => (unNat i).map fun index => { txid, index }
    | _ => none

def unAssetClass (it : Item) : Option AssetClass :=
  match it with
  | .text b => (strOf b).bind fun s => if s = "Naked" then some .naked else none
  | other =>
    (unVariant other).bind fun sp =>
      if sp.1 = "Named" then (readBytes sp.2).map AssetClass.named
      else if sp.1 = "Defined" then
        (match sp.2 with
         | .array [p, n] => (readBytes p).bind fun pb => (readBytes n).map fun nb => AssetClass.defined pb nb
         | _ => none)
      else none

def unOptional (it : Item) : Option (Option Item) :=
  match it with
  | .simple n => if n = 22 then some none else some (some (.simple n))
  | other => some (some other)

def unPairs : List Item → Option (List Item)
  | [] => some []
  | .array [k, v] :: rest => (unPairs rest).map fun r => k :: v :: r
  | _ => none

def unAssetItems : List Item → Option (List Item)
  | [] => some []
  | x :: rest =>
    (unStruct ["policy", "asset_name", "amount"] x).bind fun fs =>
      match fs with
      | [p, n, a] => (unAssetItems rest).map fun r => p :: n :: a :: r
      | _ => none

def unDataFields : List (Item × Item) → Option (List String × List Item)
  | [] => some ([], [])
  | (k, v) :: rest =>
    (unTxt k).bind fun s => (unDataFields rest).map fun r => (s :: r.1, v :: r.2)

def unAssets : List (Item × Item) → Option Assets
  | [] => some []
  | (c, n) :: rest =>
    (unAssetClass c).bind fun cls => (readInt128 n).bind fun v => (unAssets rest).map fun r => (cls, v) :: r

/-- One UTxO: its metadata and the items of its datum / script expressions (when present). -/
def unUtxo (it : Item) : Option (UtxoMeta × List Item) :=
  (unStruct ["ref", "address", "assets", "datum", "script"] it).bind fun fs =>
    match fs with
    | [r, a, .map as, d, s] =>
      (unUtxoRef r).bind fun ref => (readBytes a).bind fun address => (unAssets as).bind fun assets =>
      (unOptional d).bind fun od => (unOptional s).map fun os =>
        ({ ref, address, assets, hasDatum := od.isSome, hasScript := os.isSome }, od.toList ++ os.toList)
    | _ => none

def unUtxos : List Item → Option (List UtxoMeta × List Item)
  | [] => some ([], [])
  | x :: rest => (unUtxo x).bind fun m => (unUtxos rest).map fun r => (m.1 :: r.1, m.2 ++ r.2)

/-- The reader of one node, given the reader `d` of its children. -/
def unNode (d : Item → Option Expr) (name : String) (p : Item) : Option Expr :=
  let dl (xs : List Item) : Option (List Expr) := xs.mapM d
  let one (k : Kind) (x : Item) : Option Expr := (d x).map fun e => .node k [e]
  let two (k : Kind) (x : Item) : Option Expr :=
    match x with
    | .array [a, b] => (d a).bind fun ea => (d b).map fun eb => .node k [ea, eb]
    | _ => none
  if name = "Bytes" then (readBytes p).map fun b => .leaf (.bytes b)
  else if name = "Number" then (readInt128 p).map fun n => .leaf (.number n)
  else if name = "Bool" then (unFlag p).map fun b => .leaf (.bool b)
  else if name = "String" then (unTxt p).map fun s => .leaf (.string s)
  else if name = "Address" then (readBytes p).map fun b => .leaf (.address b)
  else if name = "Hash" then (readBytes p).map fun b => .leaf (.hash b)
  else if name = "UtxoRefs" then
    (match p with | .array xs => (xs.mapM unUtxoRef).map fun rs => .leaf (.utxoRefs rs) | _ => none)
  else if name = "List" then
    (match p with | .array xs => (dl xs).map fun cs => .node .list cs | _ => none)
  else if name = "Map" then
    (match p with | .array xs => (unPairs xs).bind fun flat => (dl flat).map fun cs => .node .map cs | _ => none)
  else if name = "Tuple" then two .tuple p
  else if name = "Struct" then
    (unStruct ["constructor", "fields"] p).bind fun fs =>
      (match fs with
       | [c, .array xs] => (unNat c).bind fun ctor => (dl xs).map fun cs => .node (.struct ctor) cs
       | _ => none)
  else if name = "Assets" then
    (match p with | .array xs => (unAssetItems xs).bind fun flat => (dl flat).map fun cs => .node .assets cs | _ => none)
  else if name = "EvalParam" then
    (match p with
     | .text b => (strOf b).bind fun s => if s = "ExpectFees" then some (.node (.param .expectFees) []) else none
     | other =>
       (unVariant other).bind fun sp =>
         if sp.1 = "Set" then one (.param .set) sp.2
         else if sp.1 = "ExpectValue" then
           (match sp.2 with
            | .array [n, t] => (unTxt n).bind fun nm => (unTy t).map fun ty => .node (.param (.expectValue nm ty)) []
            | _ => none)
         else if sp.1 = "ExpectInput" then
           (match sp.2 with
            | .array [n, q] =>
              (unTxt n).bind fun nm =>
              (unStruct ["address", "min_amount", "ref", "many", "collateral"] q).bind fun fs =>
                (match fs with
                 | [a, m, r, mf, cf] =>
                   (unFlag mf).bind fun many => (unFlag cf).bind fun coll =>
                   (d a).bind fun ea => (d m).bind fun em => (d r).map fun er =>
                     .node (.param (.expectInput nm many coll)) [ea, em, er]
                 | _ => none)
            | _ => none)
         else none)
  else if name = "EvalBuiltIn" then
    (unVariant p).bind fun sp =>
      if sp.1 = "NoOp" then one (.builtin .noop) sp.2
      else if sp.1 = "Add" then two (.builtin .add) sp.2
      else if sp.1 = "Sub" then two (.builtin .sub) sp.2
      else if sp.1 = "Concat" then two (.builtin .concat) sp.2
      else if sp.1 = "Negate" then one (.builtin .negate) sp.2
      else if sp.1 = "Property" then two (.builtin .property) sp.2
      else none
  else if name = "EvalCompiler" then
    (match p with
     | .text b => (strOf b).bind fun s => if s = "ComputeTipSlot" then some (.node (.compiler .computeTipSlot) []) else none
     | other =>
       (unVariant other).bind fun sp =>
         if sp.1 = "BuildScriptAddress" then one (.compiler .buildScriptAddress) sp.2
         else if sp.1 = "ComputeMinUtxo" then one (.compiler .computeMinUtxo) sp.2
         else if sp.1 = "ComputeSlotToTime" then one (.compiler .computeSlotToTime) sp.2
         else if sp.1 = "ComputeTimeToSlot" then one (.compiler .computeTimeToSlot) sp.2
         else none)
  else if name = "EvalCoerce" then
    (unVariant p).bind fun sp =>
      if sp.1 = "NoOp" then one (.coerce .noop) sp.2
      else if sp.1 = "IntoAssets" then one (.coerce .intoAssets) sp.2
      else if sp.1 = "IntoDatum" then one (.coerce .intoDatum) sp.2
      else if sp.1 = "IntoScript" then one (.coerce .intoScript) sp.2
      else none
  else if name = "AdHocDirective" then
    (unStruct ["name", "data"] p).bind fun fs =>
      (match fs with
       | [n, .map kvs] =>
         (unTxt n).bind fun nm => (unDataFields kvs).bind fun kd =>
           (dl kd.2).map fun cs => .node (.adhoc nm kd.1) cs
       | _ => none)
  else if name = "UtxoSet" then
    (match p with
     | .array xs => (unUtxos xs).bind fun mu => (dl mu.2).map fun cs => .node (.utxoSet mu.1) cs
     | _ => none)
  else none

/-- `Deserialize for Expression` on a data item. The fuel bounds the nesting depth. -/
def unexpr : Nat → Item → Option Expr
  | 0, _ => none
  | n + 1, it =>
    match it with
    | .text b => (strOf b).bind fun s => if s = "None" then some (.leaf .none) else none
    | other => (unVariant other).bind fun sp => unNode (unexpr n) sp.1 sp.2

/-- The shapes the Rust types guarantee (arity of each constructor, pairing of map entries, the
three fields of an asset entry, one value per directive key, UTxO expressions as flagged). -/
def shapedNode (k : Kind) (cs : List Expr) : Bool :=
  match k with
  | .list => true
  | .map => cs.length % 2 == 0
  | .tuple => cs.length == 2
  | .struct _ => true
  | .assets => cs.length % 3 == 0
  | .param .set => cs.length == 1
  | .param (.expectValue _ _) => cs.length == 0
  | .param (.expectInput _ _ _) => cs.length == 3
  | .param .expectFees => cs.length == 0
  | .builtin .noop | .builtin .negate => cs.length == 1
  | .builtin _ => cs.length == 2
  | .compiler .computeTipSlot => cs.length == 0
  | .compiler _ => cs.length == 1
  | .coerce _ => cs.length == 1
  | .adhoc _ keys => keys.length == cs.length
  | .utxoSet metas =>
    cs.length == (metas.map fun m => (if m.hasDatum then 1 else 0) + (if m.hasScript then 1 else 0)).sum

mutual
def Shaped : Expr → Bool
  | .leaf _ => true
  | .node k cs => shapedNode k cs && ShapedL cs
def ShapedL : List Expr → Bool
  | [] => true
  | c :: cs => Shaped c && ShapedL cs
end

/-! ### the transaction -/

def unInput (d : Item → Option Expr) (it : Item) : Option Input :=
  (unStruct ["name", "utxos", "redeemer"] it).bind fun fs =>
    match fs with
    | [n, u, r] => (unTxt n).bind fun name => (d u).bind fun utxos => (d r).map fun redeemer => { name, utxos, redeemer }
    | _ => none

def unOutput (d : Item → Option Expr) (it : Item) : Option Output :=
  (unStruct ["address", "datum", "amount", "optional"] it).bind fun fs =>
    match fs with
    | [a, dt, m, o] =>
      (d a).bind fun address => (d dt).bind fun datum => (d m).bind fun amount => (unFlag o).map fun optional =>
        { address, datum, amount, optional }
    | _ => none

def unMint (d : Item → Option Expr) (it : Item) : Option Mint :=
  (unStruct ["amount", "redeemer"] it).bind fun fs =>
    match fs with
    | [a, r] => (d a).bind fun amount => (d r).map fun redeemer => { amount, redeemer }
    | _ => none

def unMetadata (d : Item → Option Expr) (it : Item) : Option Metadata :=
  (unStruct ["key", "value"] it).bind fun fs =>
    match fs with
    | [k, v] => (d k).bind fun key => (d v).map fun value => { key, value }
    | _ => none

def unAdhoc (d : Item → Option Expr) (it : Item) : Option Expr :=
  (unStruct ["name", "data"] it).bind fun fs =>
    match fs with
    | [n, .map kvs] =>
      (unTxt n).bind fun nm => (unDataFields kvs).bind fun kd =>
        (kd.2.mapM d).map fun cs => .node (.adhoc nm kd.1) cs
    | _ => none

def unCollateral (d : Item → Option Expr) (it : Item) : Option Expr :=
  (unStruct ["utxos"] it).bind fun fs =>
    match fs with
    | [u] => d u
    | _ => none

def unArray : Item → Option (List Item)
  | .array xs => some xs
  | _ => none

/-- `Deserialize for Tx` on a data item. -/
def untx (n : Nat) (it : Item) : Option Tx :=
  let d := unexpr n
  (unStruct ["fees", "references", "inputs", "outputs", "validity", "mints", "burns", "adhoc", "collateral",
             "signers", "metadata"] it).bind fun fs =>
    match fs with
    | [fe, re, ins, outs, va, mi, bu, ad, co, si, me] =>
      (d fe).bind fun fees =>
      (unArray re).bind fun rs => (rs.mapM d).bind fun references =>
      (unArray ins).bind fun is => (is.mapM (unInput d)).bind fun inputs =>
      (unArray outs).bind fun os => (os.mapM (unOutput d)).bind fun outputs =>
      (unOptional va).bind fun ov =>
      (match ov with
       | none => some none
       | some v => (unStruct ["since", "until"] v).bind fun sv =>
           (match sv with
            | [a, b] => (d a).bind fun ea => (d b).map fun eb => some (ea, eb)
            | _ => none)).bind fun validity =>
      (unArray mi).bind fun ms => (ms.mapM (unMint d)).bind fun mints =>
      (unArray bu).bind fun bs => (bs.mapM (unMint d)).bind fun burns =>
      (unArray ad).bind fun as => (as.mapM (unAdhoc d)).bind fun adhoc =>
      (unArray co).bind fun cs => (cs.mapM (unCollateral d)).bind fun collateral =>
      (unOptional si).bind fun os' =>
      (match os' with
       | none => some none
       | some v => (unStruct ["signers"] v).bind fun sv =>
           (match sv with
            | [.array xs] => (xs.mapM d).map some
            | _ => none)).bind fun signers =>
      (unArray me).bind fun mds => (mds.mapM (unMetadata d)).map fun metadata =>
        { fees, references, inputs, outputs, validity, mints, burns, adhoc, collateral, signers, metadata }
    | _ => none

/-! ### ciborium's recursion budget

`ciborium::from_reader` starts with a budget of 256 and spends one unit, for as long as it is inside, on every
enum (`deserialize_enum`), every sequence or tuple (`deserialize_seq`: `Vec`, tuples, tuple variants, `Vec<u8>`
written as an array) and every map or struct (`deserialize_map`); `Option`, `Box`, newtype structs and scalars
cost nothing.  `nest` is the deepest point the typed reader reaches on the encoding of a value. -/

def maxL (l : List Nat) : Nat := l.foldl max 0

def nestClass : AssetClass → Nat
  | .naked => 1
  | .named _ => 2
  | .defined _ _ => 3

/-- `CanonicalAssets`: a map whose keys are `AssetClass` enums. -/
def nestAssets (a : Assets) : Nat := 1 + maxL (a.map fun e => nestClass e.1)

/-- A `Utxo` without its datum / script: `ref` (struct + txid array), `address` (array), `assets`. -/
def nestMeta (m : UtxoMeta) : Nat := max 2 (nestAssets m.assets)

/-- A node from its kind, the deepest child and the number of children. -/
def nestNode (k : Kind) (m n : Nat) : Nat :=
  match k with
  | .list => 2 + m
  | .map => if n < 2 then 2 else 3 + m
  | .tuple => 2 + m
  | .struct _ => 3 + m
  | .assets => if n < 3 then 2 else 3 + m
  | .param .set => 2 + m
  | .param (.expectValue _ _) => 4
  | .param (.expectInput _ _ _) => 4 + m
  | .param .expectFees => 2
  | .builtin .noop => 2 + m
  | .builtin .negate => 2 + m
  | .builtin _ => 3 + m
  | .compiler .computeTipSlot => 2
  | .compiler _ => 2 + m
  | .coerce _ => 2 + m
  | .adhoc _ _ => 3 + m
  | .utxoSet metas => if metas.isEmpty then 2 else 3 + max (maxL (metas.map nestMeta)) m

mutual
def nestE : Expr → Nat
  | .leaf .none => 1
  | .leaf (.bytes _) => 2
  | .leaf (.number _) => 1
  | .leaf (.bool _) => 1
  | .leaf (.string _) => 1
  | .leaf (.address _) => 2
  | .leaf (.hash _) => 2
  | .leaf (.utxoRefs rs) => if rs.isEmpty then 2 else 4
  | .node k cs => nestNode k (nestL cs) cs.length
def nestL : List Expr → Nat
  | [] => 0
  | c :: cs => max (nestE c) (nestL cs)
end

def nestTx (t : Tx) : Nat :=
  1 + maxL [
    nestE t.fees,
    1 + nestL t.references,
    1 + maxL (t.inputs.map fun i => 1 + max (nestE i.utxos) (nestE i.redeemer)),
    1 + maxL (t.outputs.map fun o => 1 + max (nestE o.address) (max (nestE o.datum) (nestE o.amount))),
    (match t.validity with | some (a, b) => 1 + max (nestE a) (nestE b) | none => 0),
    1 + maxL (t.mints.map fun m => 1 + max (nestE m.amount) (nestE m.redeemer)),
    1 + maxL (t.burns.map fun m => 1 + max (nestE m.amount) (nestE m.redeemer)),
    1 + maxL (t.adhoc.map fun e => match e with | .node (.adhoc _ _) cs => 2 + nestL cs | _ => 0),
    1 + maxL (t.collateral.map fun c => 1 + nestE c),
    (match t.signers with | some s => 2 + nestL s | none => 0),
    1 + maxL (t.metadata.map fun m => 1 + max (nestE m.key) (nestE m.value))]

def recursionLimit : Nat := 256

/-- `encoding::from_bytes` for the current version: one data item spanning the input, read as a `Tx`, within
ciborium's recursion budget. -/
def fromBytes (b : Bytes) : Option Tx :=
  ((Cbor.decode b).bind (untx (b.length + 1))).bind fun t => if nestTx t ≤ recursionLimit then some t else none

/-- The hypotheses of the byte-level round-trip theorem (`C11_wire_roundtrip`), evaluated by the driver on every
generated transaction: the item written is within what CBOR heads can carry, the expression slots are well
shaped and not larger than the fuel `fromBytes` gives the typed reader. -/
def bytesHyps (t : Tx) : Bool :=
  (tx t).wfb && t.slots.all fun e => Shaped e && decide (e.size ≤ (toBytes t).length + 1)

/-- A transaction from raw bytes without the recursion budget (used to tell "too deep" from "malformed"). -/
def fromBytesUnbounded (b : Bytes) : Option Tx := (Cbor.decode b).bind (untx (b.length + 1))

end Tx3.Wire
