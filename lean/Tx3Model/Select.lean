import Tx3Model.Tir

/-
L8 — `tx3-resolver/src/inputs/{narrow.rs, select/mod.rs, select/vector.rs, mod.rs}`.

Everything the Rust code leaves to a `HashSet`/`HashMap` iteration order or to the
float-based ranking of the vector selector is an explicit argument here:

* `cands : List SUtxo` — the candidate *order* seen by `pick_single`/`pick_many`
  (stands for `sort_candidates`);
* `fill : List UtxoRef → Nat → List UtxoRef` — which elements `diff.into_iter().take(k)`
  yields in `SearchSpace::take`;
* `pickExcess : List SUtxo → Nat` — which removable UTxO `find_first_excess_utxo` meets first.

Theorems are stated for all of them.
-/

namespace Tx3

structure SUtxo where
  ref : UtxoRef
  address : Bytes
  assets : Assets
  deriving DecidableEq, Repr

abbrev Store := List SUtxo

structure CQuery where
  address : Option Bytes
  minAmount : Option Assets
  refs : List UtxoRef
  many : Bool
  collateral : Bool
  deriving Repr

inductive Subset where
  | notSet
  | all
  | specific (s : List UtxoRef)
  deriving Repr

namespace Subset

def union : Subset → Subset → Subset
  | notSet, x => x
  | x, notSet => x
  | all, _ => all
  | _, all => all
  | specific a, specific b => specific (a ++ b.filter (fun r => !a.contains r))

def inter : Subset → Subset → Subset
  | notSet, x => x
  | x, notSet => x
  | all, x => x
  | x, all => x
  | specific a, specific b => specific (a.filter (fun r => b.contains r))

/-- `From<Subset> for HashSet<UtxoRef>`: only `Specific` has elements. -/
def toList : Subset → List UtxoRef
  | specific s => s
  | _ => []

def isSpecific : Subset → Bool
  | specific _ => true
  | _ => false

end Subset

structure SearchSpace where
  union : Subset
  intersection : Subset
  deriving Repr

def SearchSpace.include (sp : SearchSpace) (s : Subset) : SearchSpace :=
  { union := Subset.union sp.union s, intersection := Subset.inter sp.intersection s }

/-- The store's index: `narrow_refs(ByAddress)`. -/
def Store.byAddress (st : Store) (a : Bytes) : List UtxoRef :=
  (st.filter fun u => u.address = a).map (·.ref)

/-- `narrow_refs(ByAsset(policy, name))`: UTxOs holding a positive amount of the class. -/
def Store.byAsset (st : Store) (c : AssetClass) : List UtxoRef :=
  (st.filter fun u => decide (Assets.amt u.assets c > 0)).map (·.ref)

def narrowByAssetClass (st : Store) (parent : Subset) (c : AssetClass) : Subset :=
  match c with
  | .defined _ _ => Subset.inter parent (.specific (st.byAsset c))
  | _ => parent

/-- `narrow_search_space`; `none` = `Err(InputQueryTooBroad)`. -/
def narrowSearchSpace (st : Store) (q : CQuery) : Option SearchSpace :=
  let parent := match q.address with
    | some a => Subset.specific (st.byAddress a)
    | none => Subset.all
  let sp0 : SearchSpace := { union := .notSet, intersection := .notSet }
  let sp1 := sp0.include parent
  let sp2 := match q.minAmount with
    | some assets =>
      assets.foldl (fun sp kv =>
        if kv.2 > 0 then sp.include (narrowByAssetClass st parent kv.1) else sp) sp1
    | none => sp1
  let sp3 := if q.refs.isEmpty then sp2 else sp2.include (.specific q.refs)
  if sp3.intersection.isSpecific then some sp3 else none

def window : Nat := 50

/-- `SearchSpace::take(Some(n))`.  `fill diff k` stands for `diff.into_iter().take(k)`: it must
return at most `k` elements of `diff` (and all of them when `diff` has at most `k`). -/
def SearchSpace.take (sp : SearchSpace) (n : Nat) (fill : List UtxoRef → Nat → List UtxoRef) :
    List UtxoRef :=
  let best := sp.intersection.toList
  if best.length < n then
    let others := sp.union.toList
    let diff := others.filter fun r => !best.contains r
    best ++ fill diff (n - best.length)
  else best

/-- `Self::satisfies_hard_constraints` (the `fix:` for C03). -/
def hardOk (q : CQuery) (u : SUtxo) : Bool :=
  (match q.address with | some a => u.address = a | none => true) &&
  (q.refs.isEmpty || q.refs.contains u.ref)

/-- `store.fetch_utxos(refs)`: dangling refs vanish. -/
def Store.fetch (st : Store) (refs : List UtxoRef) : List SUtxo :=
  st.filter fun u => refs.contains u.ref

def targetOf (q : CQuery) : Assets := q.minAmount.getD []

/-! ### coin selection -/

/-- `pick_single`: first candidate (in the selector's order) that alone covers the target. -/
def pickSingle (cands : List SUtxo) (target : Assets) : List SUtxo :=
  match cands.find? (fun u => Assets.containsTotal u.assets target) with
  | some u => [u]
  | none => []

/-- The accumulation loop of `pick_many`: a candidate that holds something still pending is
taken and subtracted; the loop stops as soon as nothing positive is pending. -/
def pickManyLoop : List SUtxo → List SUtxo → Assets → List SUtxo × Assets
  | [], matched, pending => (matched, pending)
  | c :: cs, matched, pending =>
    if Assets.containsSome c.assets pending = true then
      (if Assets.isEmptyOrNegative (Assets.sub pending c.assets) = true
       then (matched ++ [c], Assets.sub pending c.assets)
       else pickManyLoop cs (matched ++ [c]) (Assets.sub pending c.assets))
    else
      (if Assets.isEmptyOrNegative pending = true then (matched, pending)
       else pickManyLoop cs matched pending)

def totalAssets (l : List SUtxo) : Assets := l.foldl (fun acc u => Assets.add acc u.assets) []

/-- `available - target` in `find_first_excess_utxo`. -/
def excessOf (matched : List SUtxo) (target : Assets) : Assets :=
  Assets.sub (totalAssets matched) target

/-- UTxOs that `find_first_excess_utxo` may return for this `matched` set. -/
def removable (matched : List SUtxo) (target : Assets) : List SUtxo :=
  if matched.length = 1 then []
  else if Assets.isEmptyOrNegative (excessOf matched target) then []
  else matched.filter fun u => Assets.containsTotal (excessOf matched target) u.assets

/-- The excess-removal loop; `pickExcess` chooses among the removable UTxOs. -/
def removeExcess (pickExcess : List SUtxo → Nat) (target : Assets) : Nat → List SUtxo → List SUtxo
  | 0, matched => matched
  | fuel + 1, matched =>
    let rs := removable matched target
    match rs[pickExcess matched % (if rs.length = 0 then 1 else rs.length)]? with
    | some u => removeExcess pickExcess target fuel (matched.filter fun v => v.ref ≠ u.ref)
    | none => matched

def pickMany (cands : List SUtxo) (target : Assets) (pickExcess : List SUtxo → Nat) : List SUtxo :=
  let (matched, pending) := pickManyLoop cands [] target
  if !(Assets.isEmptyOrNegative pending) then []
  else removeExcess pickExcess target matched.length matched

/-- Choices the Rust code leaves to hash order / float ranking. -/
structure Oracle where
  fill : List UtxoRef → Nat → List UtxoRef
  /-- the order in which the selector ranks the fetched candidates (applied to a list, returns a
  permutation of it) -/
  order : List SUtxo → List SUtxo
  pickExcess : List SUtxo → Nat

/-- `InputSelector::select` for one query, given the refs already taken (`ignore` for inputs,
`ignore_collateral` for collateral). -/
def selectOne (st : Store) (o : Oracle) (sp : SearchSpace) (q : CQuery) (ignored : List UtxoRef) :
    List SUtxo :=
  let refs := (sp.take window o.fill).filter fun r => !ignored.contains r
  let fetched := (st.fetch refs).filter (hardOk q)
  let fetched := if q.collateral then fetched.filter (fun u => Assets.isOnlyNaked u.assets) else fetched
  let cands := o.order fetched
  if q.many then pickMany cands (targetOf q) o.pickExcess else pickSingle cands (targetOf q)

inductive ResolveErr where
  | tooBroad
  | notResolved (name : String)
  deriving Repr, DecidableEq

structure SelState where
  ignore : List UtxoRef := []
  ignoreCollateral : List UtxoRef := []
  /-- name, collateral?, the UTxOs bound to the block -/
  selected : List (String × Bool × List SUtxo) := []

/-- `inputs::resolve`: one selector, queries in name order, `ignore` grows by each selection. -/
def resolveQueries (st : Store) (o : Oracle) :
    List (String × CQuery) → SelState → Except ResolveErr SelState
  | [], s => .ok s
  | (name, q) :: rest, s =>
    match narrowSearchSpace st q with
    | none => .error .tooBroad
    | some sp =>
      let ignored := if q.collateral then s.ignoreCollateral else s.ignore
      let sel := selectOne st o sp q ignored
      if sel.isEmpty then .error (.notResolved name) else
      let refs := sel.map (·.ref)
      let s' : SelState :=
        if q.collateral then
          { s with ignoreCollateral := s.ignoreCollateral ++ refs, selected := s.selected ++ [(name, true, sel)] }
        else
          { s with ignore := s.ignore ++ refs, selected := s.selected ++ [(name, false, sel)] }
      resolveQueries st o rest s'

end Tx3
