import Tx3Model.Basic
import Tx3Model.Peg

/-
L11 — the parts of `parsing.rs` that are logic rather than tree plumbing: diagnostics
(`Error::from_pest`, `Error::at`, `From<Span> for miette::SourceSpan`) and the literal builders
(`number_parse`, `bool_parse`, `StringLiteral`, `HexStringLiteral`, `UtxoRef`, `Identifier`), over the
pairs of the PEG engine.
-/

namespace Tx3.Front
open Tx3.Peg

structure Span where
  dummy : Bool
  start : Nat
  stop : Nat
  deriving Repr, DecidableEq

/-- `parsing::Error`: the text the diagnostic carries and its label. -/
structure ParseError where
  src : List Char
  span : Span
  deriving Repr

/-- `Error::from_pest(error, input)`: the whole input, pest's location copied (`Pos p` is `(p, p)`). -/
def mkParseError (input : List Char) (loc : Nat × Nat) : ParseError :=
  { src := input, span := { dummy := false, start := loc.1, stop := loc.2 } }

/-- `Error::at(pair, …)`: the whole input, the pair's span. -/
def errorAt (input : List Char) (t : PTree) : ParseError :=
  { src := input, span := { dummy := false, start := t.start, stop := t.stop } }

/-- `impl From<Span> for miette::SourceSpan`: offset and `end - start` in `usize`. -/
def sourceSpan (s : Span) : Outcome (Nat × Nat) :=
  if s.stop < s.start then .panic "attempt to subtract with overflow" else .ok (s.start, s.stop - s.start)

/-- The characters of `cs` (starting at byte offset `pos`) whose offsets lie in `[a, b)`. -/
def sliceFrom : List Char → Nat → Nat → Nat → List Char
  | [], _, _, _ => []
  | c :: cs, pos, a, b =>
    if pos ≥ b then [] else
    if pos ≥ a then c :: sliceFrom cs (pos + c.utf8Size) a b else sliceFrom cs (pos + c.utf8Size) a b

/-- `pair.as_str()`. -/
def textOf (input : List Char) (t : PTree) : List Char := sliceFrom input 0 t.start t.stop

/-! ### literal builders -/

def digitVal (c : Char) : Option Nat := if '0' ≤ c ∧ c ≤ '9' then some (c.toNat - 48) else none

def natOfDigits : List Char → Nat → Option Nat
  | [], acc => some acc
  | c :: cs, acc => match digitVal c with
    | some d => natOfDigits cs (acc * 10 + d)
    | none => none

/-- `str::parse::<i64>()` on the text of a `number` pair (`"-"? digit+`). -/
def parseI64 (cs : List Char) : Option Int :=
  match cs with
  | '-' :: (d :: ds) => (natOfDigits (d :: ds) 0).bind fun n => if n ≤ 2^63 then some (-(n : Int)) else none
  | d :: ds => (natOfDigits (d :: ds) 0).bind fun n => if n < 2^63 then some (n : Int) else none
  | [] => none

def numberParse (text : List Char) : Outcome Int :=
  match parseI64 text with
  | some v => .ok v
  | none => .err "integer literal out of range"

def boolParse (text : List Char) : Outcome Bool :=
  if text = "true".toList then .ok true else if text = "false".toList then .ok false
  else .panic "bool_parse: unwrap on a ParseBoolError"

/-- `StringLiteral`: the text without its first and last byte (both are `"`). -/
def stringParse (text : List Char) : List Char := (text.drop 1).dropLast

/-- `HexStringLiteral`: the text after `0x`, not decoded here. -/
def hexStringParse (text : List Char) : List Char := text.drop 2

def splitHash : List Char → List Char → Option (List Char × List Char)
  | [], _ => none
  | c :: rest, acc => if c = '#' then some (acc.reverse, rest) else splitHash rest (c :: acc)

/-- `UtxoRef::parse`: `0x` hex `#` decimal; the hex must have even length, the index fit `u64`. -/
def utxoRefParse (text : List Char) : Outcome (Bytes × Nat) :=
  match splitHash (text.drop 2) [] with
  | none => .err "invalid utxo ref"
  | some (h, ix) =>
    match hexDecodeChars h with
    | none => .err "invalid hex in the txid of a utxo ref"
    | some txid =>
      match (match ix with | '+' :: d :: ds => natOfDigits (d :: ds) 0 | [] => none | ds => natOfDigits ds 0) with
      | some n => if n < 2^64 then .ok (txid, n) else .err "output index of a utxo ref out of range"
      | none => .err "output index of a utxo ref out of range"

end Tx3.Front
