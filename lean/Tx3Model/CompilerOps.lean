import Tx3Model.Reduce

/-
`tx3-cardano/src/lib.rs::reduce_op`, `ops.rs`, `coercion.rs::expr_into_number` — the
chain-specific evaluation of compiler ops, as a `ReduceOp`.
-/

namespace Tx3

structure OpEnv where
  slot : Int                 -- cursor.slot (u64)
  time : Int                 -- cursor.timestamp (u128)
  coinsPerByte : Int
  mainnet : Bool
  /-- CBOR sizes of the outputs of the body compiled last by this compiler instance. -/
  latestOutputs : Option (List Nat)

/-- `coercion::expr_into_number`: a number, or a one-entry asset list's amount - read the same way, to any
depth (structural recursion on the amount, as the Rust recurses on `&x[0].amount`). -/
def exprIntoNumber : Expr → Outcome Int
  | .leaf (.number n) => .ok n
  | .node .assets [_, _, a] => exprIntoNumber a
  | _ => .err "CoerceError:Number"

/-- Proved here so that the equation lemmas and the induction principle of `exprIntoNumber` are generated in this
module (two proof modules generating them lazily would clash in the root import). -/
theorem exprIntoNumber_total (e : Expr) :
    (∃ n, exprIntoNumber e = .ok n) ∨ exprIntoNumber e = .err "CoerceError:Number" := by
  fun_induction exprIntoNumber e with
  | case1 m => exact Or.inl ⟨_, rfl⟩
  | case2 p a e ih => exact ih
  | case3 e h1 h2 => exact Or.inr rfl

theorem exprIntoNumber_one (p a e : Expr) : exprIntoNumber (.node .assets [p, a, e]) = exprIntoNumber e := by
  simp [exprIntoNumber]

theorem exprIntoNumber_none : exprIntoNumber (.node .assets []) = .err "CoerceError:Number" := by
  simp [exprIntoNumber]

def opErr (e : String) : Outcome Expr := .err ("CompilerOpFailed:" ++ e)

def liftNum (x : Outcome Int) : Outcome Int :=
  match x with
  | .ok n => .ok n
  | .err e => .err ("CompilerOpFailed:" ++ e)
  | .panic s => .panic s

def reduceOp (env : OpEnv) : ReduceOp
  | .buildScriptAddress, [x] =>
    let mk (b : Bytes) : Outcome Expr :=
      if b.length = 28 then .ok (.leaf (.address ((if env.mainnet then 0x71 else 0x70) :: b)))
      else opErr "CoerceError:28-byte hash"
    (match x with
     | .leaf (.bytes b) => mk b
     | .leaf (.hash b) => mk b
     | _ => opErr "CoerceError:Hash")
  | .computeMinUtxo, [x] => do
    -- 197 = `MIN_UTXO_BYTES` (no remembered body: the size of a plain output is assumed), 160 = the CIP-55 overhead
    let idx ← liftNum (exprIntoNumber x)
    let lovelace ← (match env.latestOutputs with
      | none => (.ok (197 * env.coinsPerByte) : Outcome Int)
      | some sizes =>
        -- `usize::try_from(index)`: a negative or oversized index is out of range
        match (if 0 ≤ idx then sizes[idx.toNat]? else none) with
        | some sz => .ok (((sz : Int) + 160) * env.coinsPerByte)
        | none => .err "CompilerOpFailed:CoerceError:output index")
    .ok (.node .assets [.leaf .none, .leaf .none, .leaf (.number lovelace)])
  | .computeTipSlot, [] => .ok (.leaf (.number env.slot))
  | .computeSlotToTime, [x] => do
    let slot ← liftNum (exprIntoNumber x)
    if slot < 0 then opErr "CoerceError:positive slot number" else
    let r := env.time + (slot - env.slot) * 1000
    if inI128 env.time && inI128 ((slot - env.slot) * 1000) && inI128 r then .ok (.leaf (.number r))
    else opErr "CoerceError:timestamp"
  | .computeTimeToSlot, [x] => do
    let time ← liftNum (exprIntoNumber x)
    if time < 0 then opErr "CoerceError:positive timestamp" else
    if inI128 env.time && inI128 (time - env.time) then
      .ok (.leaf (.number (env.slot + Int.tdiv (time - env.time) 1000)))
    else opErr "CoerceError:slot number"
  | _, _ => .err "shape:compiler"

end Tx3
