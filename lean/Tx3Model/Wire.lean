import Tx3Model.Cbor
import Tx3Model.Tir

/-
L9 — the TIR wire format: serde's derived data model for the types of `model/v1beta0.rs`,
`model/core.rs`, `model/assets.rs`, written to CBOR the way ciborium does (structs as maps
keyed by field name in declaration order, externally tagged enums, `Vec<u8>` as an array of
integers, `i128` as an integer or a bignum, `Option` as null-or-value, the fields of a
chain-specific directive in key order).  Compared byte for byte with `encoding::to_bytes`.
-/

namespace Tx3.Wire

open Cbor

/-- The UTF-8 bytes of a string. -/
def txtBytes (s : String) : Bytes := s.toUTF8.data.toList

def txt (s : String) : Item := .text (txtBytes s)

/-- A struct: map from field names, in declaration order. -/
def struct (fields : List (String × Item)) : Item := .map (fields.map fun (k, v) => (txt k, v))

/-- Externally tagged newtype / tuple / struct variant. -/
def variant (name : String) (payload : Item) : Item := .map [(txt name, payload)]

/-- `Vec<u8>`: serde's default — a sequence of integers. -/
def bytes (b : Bytes) : Item := .array (b.map fun x => .int x.toNat)

/-- ciborium's `serialize_i128`: a CBOR integer when the magnitude fits 64 bits, else a bignum. -/
def int128 (v : Int) : Item :=
  if -(2 : Int)^64 ≤ v ∧ v < (2 : Int)^64 then .int v
  else if v ≥ 0 then .tag 2 (.bytes (natToBytes v.toNat))
  else .tag 3 (.bytes (natToBytes (-1 - v).toNat))

def ty : Ty → Item
  | .undefined => txt "Undefined" | .unit => txt "Unit" | .int => txt "Int" | .bool => txt "Bool"
  | .bytes => txt "Bytes" | .address => txt "Address" | .utxo => txt "Utxo" | .utxoRef => txt "UtxoRef"
  | .anyAsset => txt "AnyAsset" | .list => txt "List" | .map => txt "Map"
  | .custom s => variant "Custom" (txt s)

def utxoRef (r : UtxoRef) : Item := struct [("txid", bytes r.txid), ("index", .int r.index)]

def assetClass : AssetClass → Item
  | .naked => txt "Naked"
  | .named n => variant "Named" (bytes n)
  | .defined p n => variant "Defined" (.array [bytes p, bytes n])

def optional (x : Option Item) : Item := match x with | some i => i | none => .simple 22

def utxoItem (m : UtxoMeta) (datum script : Option Item) : Item :=
  struct [("ref", utxoRef m.ref), ("address", bytes m.address),
          ("assets", .map (m.assets.map fun (c, n) => (assetClass c, int128 n))),
          ("datum", optional datum), ("script", optional script)]

def pairItems : List Item → List Item
  | k :: v :: rest => .array [k, v] :: pairItems rest
  | _ => []

def assetItems : List Item → List Item
  | p :: n :: a :: rest => struct [("policy", p), ("asset_name", n), ("amount", a)] :: assetItems rest
  | _ => []

def dataFields : List String → List Item → List (Item × Item)
  | k :: ks, c :: cs => (txt k, c) :: dataFields ks cs
  | _, _ => []

def utxoItems : List UtxoMeta → List Item → List Item
  | [], _ => []
  | m :: ms, cs =>
    match m.hasDatum, m.hasScript, cs with
    | true, true, d :: s :: rest => utxoItem m (some d) (some s) :: utxoItems ms rest
    | true, false, d :: rest => utxoItem m (some d) none :: utxoItems ms rest
    | false, true, s :: rest => utxoItem m none (some s) :: utxoItems ms rest
    | false, false, rest => utxoItem m none none :: utxoItems ms rest
    | _, _, _ => []

def flag (b : Bool) : Item := .simple (if b then 21 else 20)

/-- A node from its kind and the encodings of its children. -/
def assemble (k : Kind) (is : List Item) : Item :=
  match k, is with
  | .list, _ => variant "List" (.array is)
  | .map, _ => variant "Map" (.array (pairItems is))
  | .tuple, [a, b] => variant "Tuple" (.array [a, b])
  | .struct c, _ => variant "Struct" (struct [("constructor", .int c), ("fields", .array is)])
  | .assets, _ => variant "Assets" (.array (assetItems is))
  | .param .set, [x] => variant "EvalParam" (variant "Set" x)
  | .param (.expectValue n t), _ => variant "EvalParam" (variant "ExpectValue" (.array [txt n, ty t]))
  | .param (.expectInput n many coll), [a, m, r] =>
    variant "EvalParam" (variant "ExpectInput" (.array [txt n,
      struct [("address", a), ("min_amount", m), ("ref", r), ("many", flag many), ("collateral", flag coll)]]))
  | .param .expectFees, _ => variant "EvalParam" (txt "ExpectFees")
  | .builtin .noop, [x] => variant "EvalBuiltIn" (variant "NoOp" x)
  | .builtin .add, [a, b] => variant "EvalBuiltIn" (variant "Add" (.array [a, b]))
  | .builtin .sub, [a, b] => variant "EvalBuiltIn" (variant "Sub" (.array [a, b]))
  | .builtin .concat, [a, b] => variant "EvalBuiltIn" (variant "Concat" (.array [a, b]))
  | .builtin .negate, [x] => variant "EvalBuiltIn" (variant "Negate" x)
  | .builtin .property, [a, b] => variant "EvalBuiltIn" (variant "Property" (.array [a, b]))
  | .compiler .buildScriptAddress, [x] => variant "EvalCompiler" (variant "BuildScriptAddress" x)
  | .compiler .computeMinUtxo, [x] => variant "EvalCompiler" (variant "ComputeMinUtxo" x)
  | .compiler .computeTipSlot, _ => variant "EvalCompiler" (txt "ComputeTipSlot")
  | .compiler .computeSlotToTime, [x] => variant "EvalCompiler" (variant "ComputeSlotToTime" x)
  | .compiler .computeTimeToSlot, [x] => variant "EvalCompiler" (variant "ComputeTimeToSlot" x)
  | .coerce .noop, [x] => variant "EvalCoerce" (variant "NoOp" x)
  | .coerce .intoAssets, [x] => variant "EvalCoerce" (variant "IntoAssets" x)
  | .coerce .intoDatum, [x] => variant "EvalCoerce" (variant "IntoDatum" x)
  | .coerce .intoScript, [x] => variant "EvalCoerce" (variant "IntoScript" x)
  | .adhoc name keys, _ =>
    variant "AdHocDirective" (struct [("name", txt name), ("data", .map (dataFields keys is))])
  | .utxoSet metas, _ => variant "UtxoSet" (.array (utxoItems metas is))
  | _, _ => .simple 23          -- ill-shaped node: no Rust value corresponds to it

mutual
def expr : Expr → Item
  | .leaf .none => txt "None"
  | .leaf (.bytes b) => variant "Bytes" (bytes b)
  | .leaf (.number n) => variant "Number" (int128 n)
  | .leaf (.bool b) => variant "Bool" (flag b)
  | .leaf (.string s) => variant "String" (txt s)
  | .leaf (.address b) => variant "Address" (bytes b)
  | .leaf (.hash b) => variant "Hash" (bytes b)
  | .leaf (.utxoRefs rs) => variant "UtxoRefs" (.array (rs.map utxoRef))
  | .node k cs => assemble k (exprL cs)
def exprL : List Expr → List Item
  | [] => []
  | c :: cs => expr c :: exprL cs
end

def adhocDirective : Expr → Item
  | .node (.adhoc name keys) cs => struct [("name", txt name), ("data", .map (dataFields keys (exprL cs)))]
  | _ => .simple 23

def tx (t : Tx) : Item :=
  struct [
    ("fees", expr t.fees),
    ("references", .array (t.references.map expr)),
    ("inputs", .array (t.inputs.map fun i =>
      struct [("name", txt i.name), ("utxos", expr i.utxos), ("redeemer", expr i.redeemer)])),
    ("outputs", .array (t.outputs.map fun o =>
      struct [("address", expr o.address), ("datum", expr o.datum), ("amount", expr o.amount),
              ("optional", flag o.optional)])),
    ("validity", optional (t.validity.map fun (a, b) => struct [("since", expr a), ("until", expr b)])),
    ("mints", .array (t.mints.map fun m => struct [("amount", expr m.amount), ("redeemer", expr m.redeemer)])),
    ("burns", .array (t.burns.map fun m => struct [("amount", expr m.amount), ("redeemer", expr m.redeemer)])),
    ("adhoc", .array (t.adhoc.map adhocDirective)),
    ("collateral", .array (t.collateral.map fun c => struct [("utxos", expr c)])),
    ("signers", optional (t.signers.map fun s => struct [("signers", .array (s.map expr))])),
    ("metadata", .array (t.metadata.map fun m => struct [("key", expr m.key), ("value", expr m.value)]))]

/-- `encoding::to_bytes`. -/
def toBytes (t : Tx) : Bytes := encode (tx t)

/-! ### the scalar codecs, with their readers -/

def readInt128 : Item → Option Int
  | .int v => some v
  | .tag 2 (.bytes b) => some (beNat b)
  | .tag 3 (.bytes b) => some (-1 - (beNat b : Int))
  | _ => none

def readBytes : Item → Option Bytes
  | .array xs => xs.mapM fun x =>
    match x with
    | .int v => if 0 ≤ v ∧ v < 256 then some (UInt8.ofNat v.toNat) else none
    | _ => none
  | _ => none

/-- `from_bytes`'s version gate: only the current version decodes. -/
inductive Version | v1alpha8 | v1beta0 | unknown (s : String)
  deriving DecidableEq

def versionOfString (s : String) : Version :=
  if s = "v1alpha8" then .v1alpha8 else if s = "v1beta0" then .v1beta0 else .unknown s

def gate : Version → Outcome Unit
  | .v1beta0 => .ok ()
  | .v1alpha8 => .err "DeprecatedTirVersion"
  | .unknown _ => .err "UnknownTirVersion"

end Tx3.Wire
