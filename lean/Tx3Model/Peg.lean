/-
L11 — a PEG engine with pest's evaluation rules: ordered choice, greedy repetition, negative
lookahead, implicit `WHITESPACE`/`COMMENT` skipping between the items of sequences and repetitions
of non-atomic rules, atomic rules (no skipping, no inner pairs), silent rules (no pair).
The grammar it runs is `Tx3.Gen.grammar`, regenerated from `tx3.pest` on every run.
Positions are byte offsets into the UTF-8 text, as pest's are.
-/

namespace Tx3.Peg

inductive PExpr where
  | str (s : List Char)
  | any | soi | eoi
  | ranges (rs : List (Char × Char))
  | ref (i : Nat)
  | seq (a b : PExpr)
  | choice (a b : PExpr)
  | star (e : PExpr)
  | plus (e : PExpr)
  | opt (e : PExpr)
  | not (e : PExpr)
  deriving Repr, Inhabited

inductive Mode | normal | silent | atomic
  deriving Repr, DecidableEq, Inhabited

structure Rule where
  name : String
  mode : Mode
  body : PExpr
  deriving Inhabited

structure Grammar where
  rules : Array Rule
  whitespace : Nat
  comment : Nat

/-- A pair of pest: rule, byte span, inner pairs. -/
inductive PTree where
  | node (rule : String) (start stop : Nat) (children : List PTree)
  deriving Repr, Inhabited

def PTree.rule : PTree → String | .node r _ _ _ => r
def PTree.start : PTree → Nat | .node _ s _ _ => s
def PTree.stop : PTree → Nat | .node _ _ e _ => e
def PTree.children : PTree → List PTree | .node _ _ _ cs => cs

structure St where
  rest : List Char
  pos : Nat
  deriving Repr

def utf8Len (cs : List Char) : Nat := (cs.map Char.utf8Size).sum

inductive Res where
  | ok (s : St) (ts : List PTree)
  | fail
  | fuelOut
  deriving Repr

def dropPrefix : List Char → List Char → Option (List Char)
  | [], rest => some rest
  | _ :: _, [] => none
  | c :: cs, d :: rest => if c = d then dropPrefix cs rest else none

def inRanges (rs : List (Char × Char)) (c : Char) : Bool := rs.any fun r => r.1 ≤ c && c ≤ r.2

mutual
/-- `atomic`: the dynamic atomicity of pest's parser state; `ws`: whether the enclosing rule's body
was generated with implicit skips (normal and silent rules) or without (atomic rules). -/
def eval (g : Grammar) : Nat → Bool → Bool → PExpr → St → Res
  | 0, _, _, _, _ => .fuelOut
  | fuel + 1, atomic, ws, e, s =>
    match e with
    | .str cs =>
      (match dropPrefix cs s.rest with
       | some rest => .ok { rest, pos := s.pos + utf8Len cs } []
       | none => .fail)
    | .any =>
      (match s.rest with
       | c :: rest => .ok { rest, pos := s.pos + c.utf8Size } []
       | [] => .fail)
    | .soi => if s.pos = 0 then .ok s [] else .fail
    | .eoi =>
      (match s.rest with
       | [] => .ok s (if atomic then [] else [.node "EOI" s.pos s.pos []])
       | _ :: _ => .fail)
    | .ranges rs =>
      (match s.rest with
       | c :: rest => if inRanges rs c then .ok { rest, pos := s.pos + c.utf8Size } [] else .fail
       | [] => .fail)
    | .ref i =>
      (match g.rules[i]? with
       | none => .fail
       | some r =>
         match r.mode with
         | .silent => eval g fuel (atomic || i == g.whitespace || i == g.comment) true r.body s
         | .normal =>
           (match eval g fuel atomic true r.body s with
            | .ok s' ts => .ok s' (if atomic then ts else [.node r.name s.pos s'.pos ts])
            | r => r)
         | .atomic =>
           (match eval g fuel true false r.body s with
            | .ok s' ts => .ok s' (if atomic then ts else [.node r.name s.pos s'.pos ts])
            | r => r))
    | .seq a b =>
      (match eval g fuel atomic ws a s with
       | .ok s1 t1 =>
         (match (if ws then skip g fuel atomic s1 else .ok s1 []) with
          | .ok s2 _ =>
            (match eval g fuel atomic ws b s2 with
             | .ok s3 t3 => .ok s3 (t1 ++ t3)
             | r => r)
          | r => r)
       | r => r)
    | .choice a b =>
      (match eval g fuel atomic ws a s with
       | .fail => eval g fuel atomic ws b s
       | r => r)
    | .star e => starLoop g fuel atomic ws e true s []
    | .plus e =>
      -- pest's optimizer unrolls `e+` into the sequence `e ~ e*`: in a non-atomic rule the skip
      -- after the first item belongs to that sequence and is kept even when `e*` matches nothing
      eval g fuel atomic ws (.seq e (.star e)) s
    | .opt e =>
      (match eval g fuel atomic ws e s with
       | .fail => .ok s []
       | r => r)
    | .not e =>
      (match eval g fuel atomic ws e s with
       | .ok _ _ => .fail
       | .fail => .ok s []
       | .fuelOut => .fuelOut)
/-- pest's `repeat`: the first item directly, each further one after a skip; stops (keeping what
it has) at the first failure. -/
def starLoop (g : Grammar) : Nat → Bool → Bool → PExpr → Bool → St → List PTree → Res
  | 0, _, _, _, _, _, _ => .fuelOut
  | fuel + 1, atomic, ws, e, first, s, acc =>
    match (if first || !ws then Res.ok s [] else skip g fuel atomic s) with
    | .ok s1 _ =>
      (match eval g fuel atomic ws e s1 with
       | .ok s2 ts => starLoop g fuel atomic ws e false s2 (acc ++ ts)
       | .fail => .ok s acc
       | .fuelOut => .fuelOut)
    | .fail => .ok s acc
    | .fuelOut => .fuelOut
/-- pest's hidden `skip`: nothing in atomic mode; otherwise `WHITESPACE* (COMMENT WHITESPACE*)*`. -/
def skip (g : Grammar) : Nat → Bool → St → Res
  | 0, _, _ => .fuelOut
  | fuel + 1, atomic, s =>
    if atomic then .ok s []
    else
      match starLoop g fuel true false (.ref g.whitespace) true s [] with
      | .ok s1 _ => starLoop g fuel true false (.seq (.ref g.comment) (.star (.ref g.whitespace))) true s1 []
      | r => r
end

def fuelFor (input : List Char) : Nat := 16 * input.length + 20000

/-- `Tx3Grammar::parse(rule, input)` with a given recursion budget. -/
def parseF (g : Grammar) (fuel : Nat) (rule : Nat) (input : String) : Res :=
  eval g fuel false true (.ref rule) { rest := input.toList, pos := 0 }

/-- `Tx3Grammar::parse(rule, input)`: the pairs, or rejection. -/
def parse (g : Grammar) (rule : Nat) (input : String) : Res :=
  parseF g (fuelFor input.toList) rule input

/-! ### How much fuel is enough

A grammar is *well-formed* (Ford's analysis, what pest's validator enforces before it generates a parser) when
no rule can reach itself without consuming input and no repetition has a body that can match the empty string.
`check` decides it from a certificate: which rules may match the empty string (`nul`) and a rank per rule
(`rk`) that strictly decreases along every call made before anything is consumed.  `Tx3Proofs.C12Fuel` proves
that for a grammar passing `check`, `fuelNeeded` is enough for every input: the engine never answers `fuelOut`. -/

def PExpr.size : PExpr → Nat
  | .seq a b => a.size + b.size + 1
  | .choice a b => a.size + b.size + 1
  | .star e => e.size + 1
  | .plus e => 2 * e.size + 3          -- evaluated as `e ~ e*`
  | .opt e => e.size + 1
  | .not e => e.size + 1
  | _ => 1

/-- May succeed without consuming anything (an over-approximation), `nul i` answering for rule `i`. -/
def canEmpty (nul : Nat → Bool) : PExpr → Bool
  | .str cs => cs.isEmpty
  | .any => false
  | .ranges _ => false
  | .soi => true
  | .eoi => true
  | .ref i => nul i
  | .seq a b => canEmpty nul a && canEmpty nul b
  | .choice a b => canEmpty nul a || canEmpty nul b
  | .star _ => true
  | .plus e => canEmpty nul e
  | .opt _ => true
  | .not _ => true

/-- Every rule called before anything is consumed has rank below `r`, every other below `R`; the bodies of
repetitions consume. -/
def headOK (nul : Nat → Bool) (rk : Nat → Nat) (R : Nat) : Nat → PExpr → Bool
  | r, .ref i => decide (rk i < r)
  | r, .seq a b => headOK nul rk R r a && headOK nul rk R (if canEmpty nul a then r else R) b
  | r, .choice a b => headOK nul rk R r a && headOK nul rk R r b
  | r, .star e => headOK nul rk R r e && !canEmpty nul e
  | r, .plus e => headOK nul rk R r e && !canEmpty nul e
  | r, .opt e => headOK nul rk R r e
  | r, .not e => headOK nul rk R r e
  | _, _ => true

/-- One more than the highest rank among the rules called before anything is consumed (0: none). -/
def headMax (nul : Nat → Bool) (rk : Nat → Nat) : PExpr → Nat
  | .ref i => rk i + 1
  | .seq a b => max (headMax nul rk a) (if canEmpty nul a then headMax nul rk b else 0)
  | .choice a b => max (headMax nul rk a) (headMax nul rk b)
  | .star e => headMax nul rk e
  | .plus e => headMax nul rk e
  | .opt e => headMax nul rk e
  | .not e => headMax nul rk e
  | _ => 0

structure Cert where
  nul : List Bool
  rk : List Nat

def Cert.nulOf (c : Cert) (i : Nat) : Bool := c.nul.getD i true
def Cert.rkOf (c : Cert) (i : Nat) : Nat := c.rk.getD i 0

def iter {α} (f : α → α) : Nat → α → α
  | 0, x => x
  | n + 1, x => iter f n (f x)

/-- The certificate, by fixpoint iteration (as many rounds as there are rules). -/
def computeCert (g : Grammar) : Cert :=
  let rules := g.rules.toList
  let n := rules.length
  let nul := iter (fun (nul : List Bool) => rules.map fun r => canEmpty (fun i => nul.getD i true) r.body) n
    (List.replicate n false)
  let rk := iter (fun (rk : List Nat) => rules.map fun r => headMax (fun i => nul.getD i true) (fun i => rk.getD i 0) r.body) n
    (List.replicate n 0)
  { nul, rk }

def ruleOK (c : Cert) (R S : Nat) (i : Nat) (r : Rule) : Bool :=
  headOK c.nulOf c.rkOf R (c.rkOf i) r.body && (!canEmpty c.nulOf r.body || c.nulOf i) &&
    decide (c.rkOf i < R) && decide (r.body.size ≤ S)

def checkFrom (c : Cert) (R S : Nat) : Nat → List Rule → Bool
  | _, [] => true
  | i, r :: rs => ruleOK c R S i r && checkFrom c R S (i + 1) rs

/-- The grammar is well-formed, as witnessed by `c`, with ranks below `R` and rule bodies no larger than `S`;
the two skipped rules consume. -/
def check (g : Grammar) (c : Cert) (R S : Nat) : Bool :=
  checkFrom c R S 0 g.rules.toList && !c.nulOf g.whitespace && !c.nulOf g.comment && decide (4 ≤ S) &&
    decide (c.rkOf g.whitespace < R) && decide (c.rkOf g.comment < R)

def rankBound (c : Cert) : Nat := c.rk.foldl max 0 + 1
def sizeBound (g : Grammar) : Nat := g.rules.toList.foldl (fun m r => max m r.body.size) 4

/-- The coefficients of the budget: per byte of input, per rank, per node of an expression, and what a skip needs. -/
def coefB (S : Nat) : Nat := 2 * S + 1
def coefA (R S : Nat) : Nat := coefB S * R + 2 * S + 4
def reserve (R S : Nat) : Nat := coefB S * R + 12

/-- Enough fuel for an input of `len` characters. -/
def fuelNeeded (R S len : Nat) : Nat := coefA R S * len + coefB S * R + 2 + reserve R S

end Tx3.Peg
