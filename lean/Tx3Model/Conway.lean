import Tx3Model.Compile

/-
A reader for Conway-era transactions written from the ledger CDDL: payload bytes → generic CBOR
→ `ATx`.  It is an independent observer of what the real compiler emitted (pallas is not
involved); it also reports structural well-formedness facts that the abstract transaction
cannot express (duplicate set members, empty maps, key lengths).
-/

namespace Tx3.Conway

open Cbor

structure WfReport where
  dupInputs : Bool := false
  dupCollateral : Bool := false
  dupReferenceInputs : Bool := false
  dupSigners : Bool := false
  emptyMintPolicy : Bool := false
  zeroMintQuantity : Bool := false
  zeroOutputAsset : Bool := false
  emptyOptionalField : Bool := false
  /-- some set of the witness set (key witnesses, native scripts, bootstrap witnesses, Plutus scripts of any version,
  Plutus data) lists one member twice, or is there and empty -/
  dupWitnessMember : Bool := false
  emptyWitnessField : Bool := false
  /-- key witnesses the (unsigned) transaction carries -/
  keyWitnesses : Nat := 0
  badRewardAccount : Bool := false
  deriving Repr

def readTxIn (x : Item) : Option TxIn :=
  match x.asArray? with
  | some [h, i] => do
    let hb ← h.asBytes?
    let iv ← i.asInt?
    if iv < 0 then none else some (hb, iv.toNat)
  | _ => none

def readTxIns (x : Item) : Option (List TxIn) := do
  let xs ← x.asSet?
  xs.mapM readTxIn

def readMultiasset (x : Item) : Option (List (Bytes × Bytes × Int) × Bool) := do
  let ps ← x.asMap?
  let mut out : List (Bytes × Bytes × Int) := []
  let mut emptyInner := false
  for (p, inner) in ps do
    let pb ← p.asBytes?
    let names ← inner.asMap?
    if names.isEmpty then emptyInner := true
    for (n, q) in names do
      let nb ← n.asBytes?
      let qv ← q.asInt?
      out := out ++ [(pb, nb, qv)]
  pure (out, emptyInner)

def readValue (x : Item) : Option (Int × List (Bytes × Bytes × Int) × Bool) :=
  match x with
  | .int c => some (c, [], false)
  | other =>
    match other.asArray? with
    | some [c, ma] => do
      let cv ← c.asInt?
      let (assets, e) ← readMultiasset ma
      some (cv, assets, e)
    | _ => none

def readDatumOption (x : Item) : Option (Option PData) :=
  match x.asArray? with
  | some [.int 1, .tag 24 (.bytes b)] => do
    let it ← decode b
    let d ← PData.specRead it
    some (some d)
  | some [.int 0, _] => some none        -- datum hash: not produced by the compiler
  | _ => none

def readScriptRef (x : Item) : Option (Nat × Bytes) :=
  match x with
  | .tag 24 (.bytes b) =>
    match decode b with
    | some (.array [.int v, .bytes s]) => if v < 0 then none else some (v.toNat, s)
    | some (.array [.int 0, _]) => some (0, [])
    | _ => none
  | _ => none

def readOutput (x : Item) : Option (AOutput × Bool) := do
  let kvs ← x.asMap?
  let addr ← (← lookupInt kvs 0).asBytes?
  let (coin, assets, e) ← readValue (← lookupInt kvs 1)
  let datum ← (match lookupInt kvs 2 with
    | some d => readDatumOption d
    | none => some none)
  let sref ← (match lookupInt kvs 3 with
    | some s => (readScriptRef s).map some
    | none => some none)
  pure ({ address := addr, coin, assets, datum, scriptRef := sref }, e)

def readMetadatum (x : Item) : Option Metadatum :=
  match x with
  | .int v => some (.int v)
  | .text b => some (.text b)
  | .bytes b => some (.bytes b)
  | _ => none

def readRedeemers (x : Item) : Option (List ((Nat × Nat) × PData)) :=
  match x with
  | .map kvs => kvs.mapM fun (k, v) =>
    match k.asArray?, v.asArray? with
    | some [.int t, .int i], some [d, _ex] => do
      let pd ← PData.specRead d
      if t < 0 || i < 0 then none else some ((t.toNat, i.toNat), pd)
    | _, _ => none
  | other =>
    -- legacy array form: [tag, index, data, ex_units]
    match other.asArray? with
    | some rs => rs.mapM fun r =>
      match r.asArray? with
      | some [.int t, .int i, d, _] => do
        let pd ← PData.specRead d
        if t < 0 || i < 0 then none else some ((t.toNat, i.toNat), pd)
      | _ => none
    | none => none

def hasDup {α} [DecidableEq α] (l : List α) : Bool := l.eraseDups.length != l.length

/-- Payload → (abstract transaction, well-formedness report, body bytes re-encoded).
`none`: the payload is not a Conway transaction this reader understands. -/
def readTx (payload : Bytes) : Option (ATx × WfReport × Item) := do
  let top ← decode payload
  let parts ← top.asArray?
  match parts with
  | [body, wits, _valid, aux] =>
    let b ← body.asMap?
    let inputs ← readTxIns (← lookupInt b 0)
    let outsI ← (← lookupInt b 1).asArray?
    let outs ← outsI.mapM readOutput
    let fee ← (← lookupInt b 2).asInt?
    let ttl ← (match lookupInt b 3 with | some x => x.asInt?.map some | none => some none)
    let start ← (match lookupInt b 8 with | some x => x.asInt?.map some | none => some none)
    let (mint, emptyPol) ← (match lookupInt b 9 with
      | some x => readMultiasset x
      | none => some ([], false))
    let wds ← (match lookupInt b 5 with
      | some x => do
        let kvs ← x.asMap?
        kvs.mapM fun (k, v) => do
          let kb ← k.asBytes?
          let vv ← v.asInt?
          some (kb, vv)
      | none => some [])
    let coll ← (match lookupInt b 13 with | some x => readTxIns x | none => some [])
    let signers ← (match lookupInt b 14 with
      | some x => do let xs ← x.asSet?; xs.mapM (·.asBytes?)
      | none => some [])
    let refs ← (match lookupInt b 18 with | some x => readTxIns x | none => some [])
    let net ← (match lookupInt b 15 with | some x => x.asInt?.map some | none => some none)
    let donation ← (match lookupInt b 22 with | some x => x.asInt?.map some | none => some none)
    -- certificates: `[9, [0|1, credential], [0, drep key hash]]` (vote delegation, the only kind the compiler writes)
    let certs ← (match lookupInt b 4 with
      | some x => do
        let xs ← x.asSet?
        xs.mapM fun c => do
          match ← c.asArray? with
          | [tag, cred, drep] => do
            if (← tag.asInt?) != 9 then none
            match ← cred.asArray?, ← drep.asArray? with
            | [k, h], [dk, dh] => do
              if (← dk.asInt?) != 0 then none
              let k ← k.asInt?
              if k != 0 && k != 1 then none
              some ({ credIsScript := k = 1, cred := ← h.asBytes?, drep := ← dh.asBytes? } : Cert)
            | _, _ => none
          | _ => none
      | none => some [])
    let w ← wits.asMap?
    let redeemers ← (match lookupInt w 5 with | some x => readRedeemers x | none => some [])
    let scriptsOf (k : Int) : Option (List Bytes) :=
      match lookupInt w k with
      | some x => do let xs ← x.asSet?; xs.mapM (·.asBytes?)
      | none => some []
    let v1 ← scriptsOf 3
    let v2 ← scriptsOf 6
    let v3 ← scriptsOf 7
    let plutus := ([(1, v1), (2, v2), (3, v3)] : List (Nat × List Bytes)).filter fun x => !x.2.isEmpty
    let native ← (match lookupInt w 1 with
      | some x => do let xs ← x.asSet?; some xs.length
      | none => some 0)
    let metadata ← (match aux with
      | .simple 22 => some []
      | .tag 259 m => do
        let kvs ← m.asMap?
        match lookupInt kvs 0 with
        | some md => do
          let mkvs ← md.asMap?
          mkvs.mapM fun (k, v) => do
            let kv ← k.asInt?
            let mv ← readMetadatum v
            some (kv, mv)
        | none => some []
      | .map mkvs => mkvs.mapM fun (k, v) => do
          let kv ← k.asInt?
          let mv ← readMetadatum v
          some (kv, mv)
      | _ => none)
    let witnessSets : List (List Item) := [0, 1, 2, 3, 4, 6, 7].filterMap fun (k : Int) =>
      (lookupInt w k).bind fun x => x.asSet?
    let keyWitnesses := ((lookupInt w 0).bind fun x => x.asSet?).map (·.length) |>.getD 0
    let optionalEmpty (k : Int) : Bool :=
      match lookupInt b k with
      | some x => (match x.asSet? with | some [] => true | _ => (match x.asMap? with | some [] => true | _ => false))
      | none => false
    let rep : WfReport := {
      dupInputs := hasDup inputs
      dupCollateral := hasDup coll
      dupReferenceInputs := hasDup refs
      dupSigners := hasDup signers
      emptyMintPolicy := emptyPol
      zeroMintQuantity := mint.any fun m => m.2.2 = 0
      zeroOutputAsset := outs.any fun o => o.1.assets.any (fun a => a.2.2 ≤ 0) || o.2
      emptyOptionalField := [4, 5, 9, 13, 14, 18].any optionalEmpty
      dupWitnessMember := witnessSets.any fun xs => hasDup (xs.map encode)
      emptyWitnessField := witnessSets.any (·.isEmpty)
      keyWitnesses
      badRewardAccount := wds.any fun w =>
        w.1.length != 29 || !((w.1.head?.map fun h => h.toNat / 16 = 14 || h.toNat / 16 = 15).getD false) }
    let atx : ATx := {
      inputs, outputs := outs.map (·.1), fee, ttl, validityStart := start, mint, withdrawals := wds,
      collateral := coll, requiredSigners := signers, referenceInputs := refs, networkId := net,
      donation, certs, hasScriptDataHash := (lookupInt b 11).isSome,
      hasAuxDataHash := (lookupInt b 7).isSome, metadata, redeemers, plutusScripts := plutus,
      nativeScripts := native }
    pure (atx, rep, body)
  | _ => none

end Tx3.Conway
