import Tx3Model.Assets

/-
L2 — `tx3-tir/src/model/v1beta0.rs`, `model/core.rs`.

`Expression` and the enums boxed inside it (`Param`, `BuiltInOp`, `CompilerOp`,
`Coerce`, `AssetExpr`, `StructExpr`, `InputQuery`, `AdHocDirective`) form one
nested family in Rust.  The model uses one uniform tree: a `leaf` for the
literal variants the Rust code treats alike, and `node k cs` where `k` carries
the constructor and every non-expression payload, and `cs` are the
expression-typed fields in declaration order.  The table that says which
fields those are is regenerated from the source by the translator
(`Gen/Schema.lean`) and tied to `Kind.arity`/`Kind.ofRust` in
`Tx3Proofs/Tie/Schema.lean`.
-/

namespace Tx3

inductive Ty where
  | undefined | unit | int | bool | bytes | address | utxo | utxoRef | anyAsset | list | map
  | custom (s : String)
  deriving DecidableEq, Repr

structure UtxoRef where
  txid : Bytes
  index : Nat
  deriving DecidableEq, Repr

/-- `(txid, index)` order used by the ledger (and by `sort_by_key` in the compiler). -/
def UtxoRef.le (a b : UtxoRef) : Bool :=
  if a.txid = b.txid then a.index ≤ b.index else bytesLe a.txid b.txid

inductive Leaf where
  | none
  | bytes (b : Bytes)
  | number (n : Int)
  | bool (b : Bool)
  | string (s : String)
  | address (b : Bytes)
  | hash (b : Bytes)
  | utxoRefs (rs : List UtxoRef)
  deriving DecidableEq, Repr

inductive PKind where
  | set
  | expectValue (name : String) (ty : Ty)
  | expectInput (name : String) (many collateral : Bool)   -- children: address, min_amount, ref
  | expectFees
  deriving DecidableEq, Repr

inductive BKind where
  | noop | add | sub | concat | negate | property
  deriving DecidableEq, Repr

inductive CKind where
  | buildScriptAddress | computeMinUtxo | computeTipSlot | computeSlotToTime | computeTimeToSlot
  deriving DecidableEq, Repr

inductive KKind where
  | noop | intoAssets | intoDatum | intoScript
  deriving DecidableEq, Repr

/-- The non-expression part of a UTxO.  Its `datum`/`script` expressions are children of the
`utxoSet` node (datum first), present when the flag is set. -/
structure UtxoMeta where
  ref : UtxoRef
  address : Bytes
  assets : Assets
  hasDatum : Bool
  hasScript : Bool
  deriving DecidableEq, Repr

inductive Kind where
  | list
  | map                       -- children: k₁, v₁, k₂, v₂, …
  | tuple                     -- two children
  | struct (ctor : Nat)
  | assets                    -- children: policy₁, name₁, amount₁, policy₂, …
  | param (p : PKind)
  | builtin (b : BKind)
  | compiler (c : CKind)
  | coerce (k : KKind)
  | adhoc (name : String) (keys : List String)   -- children: the values, in `keys` order
  | utxoSet (metas : List UtxoMeta)              -- identity of a UTxO is its ref; kept sorted by ref
  deriving DecidableEq, Repr

inductive Expr where
  | leaf (l : Leaf)
  | node (k : Kind) (cs : List Expr)
  deriving Repr

namespace Expr

mutual
def beq : Expr → Expr → Bool
  | leaf a, leaf b => a == b
  | node k cs, node k' cs' =>
    -- `Utxo`'s hand-written `PartialEq` compares refs only
    (match k, k' with
     | .utxoSet m, .utxoSet m' => m.map (·.ref) == m'.map (·.ref)
     | _, _ => k == k') && (match k with | .utxoSet _ => true | _ => beqL cs cs')
  | _, _ => false
def beqL : List Expr → List Expr → Bool
  | [], [] => true
  | a :: as, b :: bs => beq a b && beqL as bs
  | _, _ => false
end

instance : BEq Expr := ⟨beq⟩

def absent : Expr := leaf .none
def num (n : Int) : Expr := leaf (.number n)
def isNone : Expr → Bool
  | leaf .none => true
  | _ => false

def asNumber? : Expr → Option Int
  | leaf (.number n) => some n
  | _ => Option.none

/-- `Expression::as_bytes`. -/
def asBytes? : Expr → Option Bytes
  | leaf (.bytes b) => some b
  | leaf (.string s) => some s.toUTF8.toList
  | leaf (.address b) => some b
  | leaf (.hash b) => some b
  | _ => Option.none

mutual
def size : Expr → Nat
  | leaf _ => 1
  | node _ cs => 1 + sizeL cs
def sizeL : List Expr → Nat
  | [] => 0
  | c :: cs => size c + sizeL cs
end

end Expr

/-- Number of expression children each constructor has (`none` = variable). -/
def Kind.arity : Kind → Option Nat
  | .list => none
  | .map => none
  | .tuple => some 2
  | .struct _ => none
  | .assets => none
  | .param .set => some 1
  | .param (.expectValue _ _) => some 0
  | .param (.expectInput _ _ _) => some 3
  | .param .expectFees => some 0
  | .builtin .noop => some 1
  | .builtin .add => some 2
  | .builtin .sub => some 2
  | .builtin .concat => some 2
  | .builtin .negate => some 1
  | .builtin .property => some 2
  | .compiler .computeTipSlot => some 0
  | .compiler _ => some 1
  | .coerce _ => some 1
  | .adhoc _ keys => some keys.length
  | .utxoSet _ => none

/-! ### The transaction -/

structure Input where
  name : String
  utxos : Expr
  redeemer : Expr
  deriving Repr

structure Output where
  address : Expr
  datum : Expr
  amount : Expr
  optional : Bool
  deriving Repr

structure Mint where
  amount : Expr
  redeemer : Expr
  deriving Repr

structure Metadata where
  key : Expr
  value : Expr
  deriving Repr

structure Tx where
  fees : Expr
  references : List Expr
  inputs : List Input
  outputs : List Output
  validity : Option (Expr × Expr)      -- since, until
  mints : List Mint
  burns : List Mint
  adhoc : List Expr                    -- each an `adhoc` node
  collateral : List Expr               -- `Collateral.utxos`
  signers : Option (List Expr)
  metadata : List Metadata
  deriving Repr

/-- Every expression slot of a transaction, in the order `Apply for Tx::params` visits the
fields (`inputs, outputs, mints, burns, fees, adhoc, signers, validity, metadata, references,
collateral`). -/
def Tx.slots (t : Tx) : List Expr :=
  (t.inputs.flatMap fun i => [i.utxos, i.redeemer]) ++
  (t.outputs.flatMap fun o => [o.address, o.datum, o.amount]) ++
  (t.mints.flatMap fun m => [m.amount, m.redeemer]) ++
  (t.burns.flatMap fun m => [m.amount, m.redeemer]) ++
  [t.fees] ++ t.adhoc ++
  (match t.signers with | some s => s | none => []) ++
  (match t.validity with | some (a, b) => [a, b] | none => []) ++
  (t.metadata.flatMap fun m => [m.key, m.value]) ++
  t.references ++ t.collateral

/-- Apply `f` to every expression slot. -/
def Tx.map (f : Expr → Expr) (t : Tx) : Tx :=
  { fees := f t.fees
    references := t.references.map f
    inputs := t.inputs.map fun i => { i with utxos := f i.utxos, redeemer := f i.redeemer }
    outputs := t.outputs.map fun o =>
      { o with address := f o.address, datum := f o.datum, amount := f o.amount }
    validity := t.validity.map fun (a, b) => (f a, f b)
    mints := t.mints.map fun m => { amount := f m.amount, redeemer := f m.redeemer }
    burns := t.burns.map fun m => { amount := f m.amount, redeemer := f m.redeemer }
    adhoc := t.adhoc.map f
    collateral := t.collateral.map f
    signers := t.signers.map fun s => s.map f
    metadata := t.metadata.map fun m => { key := f m.key, value := f m.value } }

theorem Tx.slots_map (f : Expr → Expr) (t : Tx) : (t.map f).slots = t.slots.map f := by
  cases t with
  | mk fees refs ins outs val mints burns adhoc coll signers md =>
    simp only [Tx.map, Tx.slots, List.map_append, List.map_flatMap, List.flatMap_map]
    cases signers <;> cases val <;> simp [List.flatMap_def, Function.comp_def]

def mapMO {α β} (f : α → Outcome β) : List α → Outcome (List β)
  | [] => .ok []
  | x :: xs => do
    let y ← f x
    let ys ← mapMO f xs
    pure (y :: ys)

/-- Apply a fallible `f` to every slot, in the order `Apply for Tx::reduce` evaluates the
fields (first error wins): `references, inputs, outputs, validity, mints, burns, fees, adhoc,
collateral, signers, metadata`. -/
def Tx.mapM (f : Expr → Outcome Expr) (t : Tx) : Outcome Tx := do
  let references ← mapMO f t.references
  let inputs ← mapMO (fun (i : Input) => do
    let u ← f i.utxos; let r ← f i.redeemer
    pure { i with utxos := u, redeemer := r }) t.inputs
  let outputs ← mapMO (fun (o : Output) => do
    let a ← f o.address; let d ← f o.datum; let m ← f o.amount
    pure { o with address := a, datum := d, amount := m }) t.outputs
  let validity ← (match t.validity with
    | some (a, b) => do let a' ← f a; let b' ← f b; pure (some (a', b'))
    | Option.none => pure Option.none : Outcome (Option (Expr × Expr)))
  let mints ← mapMO (fun (m : Mint) => do
    let a ← f m.amount; let r ← f m.redeemer; pure ({ amount := a, redeemer := r } : Mint)) t.mints
  let burns ← mapMO (fun (m : Mint) => do
    let a ← f m.amount; let r ← f m.redeemer; pure ({ amount := a, redeemer := r } : Mint)) t.burns
  let fees ← f t.fees
  let adhoc ← mapMO f t.adhoc
  let collateral ← mapMO f t.collateral
  let signers ← (match t.signers with
    | some s => do let s' ← mapMO f s; pure (some s')
    | Option.none => pure Option.none : Outcome (Option (List Expr)))
  let metadata ← mapMO (fun (m : Metadata) => do
    let k ← f m.key; let v ← f m.value; pure ({ key := k, value := v } : Metadata)) t.metadata
  pure { fees, references, inputs, outputs, validity, mints, burns, adhoc, collateral, signers,
         metadata }

end Tx3
