import Tx3Model.Lang
import Tx3Model.Reduce

/-
L5 — model of `analyzing.rs` (which symbol a name resolves to) composed with `lowering.rs`
(what each construct becomes in the IR), over the generator's syntax tree.
-/

namespace Tx3.Lang

open Tx3

inductive Sym where
  | param (name : String) (ty : LTy)
  | envVar (name : String) (ty : LTy)
  | localE (e : LExpr)
  | party (name : String)
  | input (b : InputBlock)
  | output (index : Nat)
  | fees
  | policy (name : String) (hash : String)
  | asset (policy name : LExpr)
  | typeDef (t : TypeDef)
  | aliasDef (ty : LTy)
  | function (name : String)
  deriving Inhabited

structure Scope where
  prog : Program
  tx : TxDef

def indexOfOutput (outs : List OutputBlock) (x : String) : Option Nat :=
  let rec go : List OutputBlock → Nat → Option Nat → Option Nat
    | [], _, acc => acc
    | o :: rest, i, acc => go rest (i + 1) (if o.name = some x then some i else acc)
  go outs 0 none

def lastWith {α β} (l : List α) (f : α → Option β) : Option β :=
  l.foldl (fun acc a => match f a with | some b => some b | none => acc) none

/-- `Scope::resolve` above the transaction's own block scope: parameters and `fees`, then the
program's definitions, then the built-in functions. -/
def resolveOuter (s : Scope) (x : String) : Option Sym :=
  match lastWith s.tx.params (fun p => if p.1 = x then some p.2 else none) with
  | some ty => some (.param x ty)
  | none =>
  if x = "fees" then some .fees else
  match lastWith s.prog.aliases (fun a => if a.1 = x then some a.2 else none) with
  | some ty => some (.aliasDef ty)
  | none =>
  match lastWith s.prog.types (fun t => if t.name = x then some t else none) with
  | some t => some (.typeDef t)
  | none =>
  match lastWith s.prog.assets (fun a => if a.1 = x then some a.2 else none) with
  | some (p, n) => some (.asset p n)
  | none =>
  if x = "Ada" then some (.asset (.leaf .unit) (.leaf .unit)) else     -- placeholder: handled by name
  match lastWith s.prog.policies (fun p => if p.1 = x then some p.2 else none) with
  | some h => some (.policy x h)
  | none =>
  if s.prog.parties.contains x then some (.party x) else
  match lastWith s.prog.env (fun p => if p.1 = x then some p.2 else none) with
  | some ty => some (.envVar x ty)
  | none =>
  if ["min_utxo", "tip_slot", "slot_to_time", "time_to_slot"].contains x then some (.function x) else none

/-- `Scope::resolve` through the layers `TxDef::analyze` builds: outputs, inputs and locals (the
innermost, later insertions overriding earlier ones), then everything above. -/
def resolve (s : Scope) (x : String) : Option Sym :=
  match indexOfOutput s.tx.outputs x with
  | some i => some (.output i)
  | none =>
  match lastWith s.tx.inputs (fun b => if b.name = x then some b else none) with
  | some b => some (.input b)
  | none =>
  match lastWith s.tx.locals (fun l => if l.1 = x then some l.2 else none) with
  | some e => some (.localE e)
  | none => resolveOuter s x

def lowerTy : LTy → Ty
  | .int => .int | .bool => .bool | .bytes => .bytes | .address => .address | .utxoRef => .utxoRef
  | .anyAsset => .anyAsset | .list _ => .list | .custom n => .custom n

/-- `lowering::Context` (which reading of an input or policy name the position asks for), plus how
many more symbols may be followed from here.

`TxDef::analyze` runs nine passes and a final one; a symbol attached to an identifier holds a
*clone* of the local's expression (or of the input block) as annotated by the previous pass, so from
a node of the transaction itself `symbolDepth` symbols can be followed, and the identifiers of the
expression reached by the ninth carry no symbol at all: lowering them is `MissingAnalyzePhase`. -/
structure Ctx where
  asset : Bool := false
  datum : Bool := false
  address : Bool := false
  lvl : Nat := 9
  deriving Inhabited

def symbolDepth : Nat := 9

def Ctx.enterAsset (c : Ctx) : Ctx := { asset := true, lvl := c.lvl }
def Ctx.enterDatum (c : Ctx) : Ctx := { datum := true, lvl := c.lvl }
def Ctx.enterAddress (c : Ctx) : Ctx := { address := true, lvl := c.lvl }
/-- Following a symbol into the clone it holds. -/
def Ctx.down (c : Ctx) : Ctx := { c with lvl := c.lvl - 1 }

def lerr {α} (e : String) : Outcome α := .err ("lower:" ++ e)

def none' : Expr := .leaf .none
def paramValue (name : String) (ty : Ty) : Expr := .node (.param (.expectValue name.toLower ty)) []

/-- `Type::properties` for a custom type: the fields of its only case. -/
def recordFields (s : Scope) (n : String) : List (String × LTy) :=
  match findType s.prog n with
  | some t => (match t.cases with | [c] => c.fields | _ => [])
  | none => []

/-- `DataExpr::target_type`, for the constructs of the fragment. -/
def typeOf (s : Scope) : LExpr → Option LTy
  | .leaf (.num _) => some .int
  | .leaf (.bool _) => some .bool
  | .leaf (.str _) => some .bytes
  | .leaf (.hex _) => some .bytes
  | .leaf (.utxoRef _ _) => some .utxoRef
  | .leaf .unit => none
  | .leaf (.id x) =>
    (match resolve s x with
     | some (.param _ ty) => some ty
     | some (.input b) => b.datumIs
     | _ => none)
  | .node .add (a :: _) => typeOf s a
  | .node .sub (a :: _) => typeOf s a
  | .node .neg (a :: _) => typeOf s a
  | .node .concat (a :: _) => typeOf s a
  | .node .list (a :: _) => (typeOf s a).map .list
  | .node .anyAsset _ => some .anyAsset
  | .node (.prop f) [a] =>
    (match typeOf s a with
     | some (.custom n) => Lang.lookup (recordFields s n) f
     | some .anyAsset => Lang.lookup [("amount", LTy.int), ("policy", .bytes), ("asset_name", .bytes)] f
     | some .utxoRef => Lang.lookup [("tx_hash", LTy.bytes), ("output_index", .int)] f
     | _ => none)
  | .node .index [_, i] => typeOf s i
  | _ => none

def builtin (b : BKind) (cs : List Expr) : Expr := .node (.builtin b) cs

mutual
/-- `IntoLower for DataExpr` (with `Identifier`, `PropertyOp`, `StructConstructor`, `FnCall`, …). -/
def lowerE (s : Scope) : Nat → Ctx → LExpr → Outcome Expr
  | 0, _, _ => lerr "fuel"
  | fuel + 1, ctx, e =>
    match e with
    | .leaf (.num n) => .ok (.leaf (.number n))
    | .leaf (.bool b) => .ok (.leaf (.bool b))
    | .leaf (.str t) => .ok (.leaf (.string t))
    | .leaf (.hex h) => (match hexDecode h with | some b => .ok (.leaf (.bytes b)) | none => lerr "DecodeHexError")
    | .leaf .unit => .ok (.node (.struct 0) [])
    | .leaf (.utxoRef t i) =>
      (match hexDecode t with
       | some b => .ok (.leaf (.utxoRefs [{ txid := b, index := i % 2^32 }]))
       | none => lerr "utxo-ref")
    | .leaf (.id x) =>
      -- the expression reached through the last symbol is the clone made before the first pass: its
      -- identifiers carry no symbol at all
      if ctx.lvl = 0 then lerr ("MissingAnalyzePhase:" ++ x) else
      (match resolve s x with
       | none => lerr ("MissingAnalyzePhase:" ++ x)
       | some (.param n ty) => .ok (paramValue n (lowerTy ty))
       | some (.envVar n ty) => .ok (paramValue n (lowerTy ty))
       | some (.party n) => .ok (paramValue n .address)
       | some (.localE le) => lowerE s fuel ctx.down le
       | some .fees => .ok (.node (.param .expectFees) [])
       | some (.output i) => .ok (.leaf (.number i))
       | some (.policy _ h) =>
         (match hexDecode h with
          | some hb =>
            if ctx.address then .ok (.node (.compiler .buildScriptAddress) [.leaf (.hash hb)])
            else .ok (.leaf (.hash hb))
          | none => lerr "DecodeHexError")
       | some (.input b) => do
         let q ← lowerInput s fuel ctx.down b
         if ctx.asset then .ok (.node (.coerce .intoAssets) [q])
         else if ctx.datum then .ok (.node (.coerce .intoDatum) [q])
         else .ok q
       | some _ => lerr "InvalidSymbol")
    | .node .add [a, b] => do
      let x ← lowerE s fuel ctx a; let y ← lowerE s fuel ctx b; .ok (builtin .add [x, y])
    | .node .sub [a, b] => do
      let x ← lowerE s fuel ctx a; let y ← lowerE s fuel ctx b; .ok (builtin .sub [x, y])
    | .node .concat [a, b] => do
      let x ← lowerE s fuel ctx a; let y ← lowerE s fuel ctx b; .ok (builtin .concat [x, y])
    | .node .neg [a] => do let x ← lowerE s fuel ctx a; .ok (builtin .negate [x])
    | .node (.prop f) [a] => do
      -- a field of an input is a field of its datum, wherever the access is written
      let isInput := match a with
        | .leaf (.id x) => (match resolve s x with | some (.input _) => true | _ => false)
        | _ => false
      let obj ← lowerE s fuel (if isInput then ctx.enterDatum else ctx) a
      match typeOf s a with
      | none => lerr "MissingAnalyzePhase:operand"
      | some ty =>
        let props : List (String × LTy) := match ty with
          | .custom n => recordFields s n
          | .anyAsset => [("amount", .int), ("policy", .bytes), ("asset_name", .bytes)]
          | .utxoRef => [("tx_hash", .bytes), ("output_index", .int)]
          | _ => []
        match fieldIndex props f with
        | some i => .ok (builtin .property [obj, .leaf (.number i)])
        | none => lerr "InvalidProperty"
    | .node .index [a, i] => do
      let obj ← lowerE s fuel ctx a
      match typeOf s a with
      | some (.list _) =>
        if typeOf s i = some .int then do
          let ix ← lowerE s fuel ctx i
          .ok (builtin .property [obj, ix])
        else lerr "InvalidProperty"
      | some _ => lerr "InvalidProperty"
      | none => lerr "MissingAnalyzePhase:operand"
    | .node .list cs => do let xs ← lowerL s fuel ctx cs; .ok (.node .list xs)
    | .node .map cs => do let xs ← lowerL s fuel ctx cs; .ok (.node .map xs)
    | .node (.record ty case names hasSpread) cs =>
      if ctx.lvl = 0 then lerr "InvalidSymbol:type" else
      (match findType s.prog ty with
       | none => lerr "InvalidSymbol:type"
       | some td =>
         match caseIndex td (case.getD "Default") with
         | none => lerr "InvalidAst:case"
         | some (ix, cd) => do
           -- only what a declared field needs is lowered: the first explicit value of that name
           -- (further ones and undeclared names are ignored), else the spread, once per use
           let given := names.zip cs
           let spread : Option LExpr := if hasSpread then cs.getLast? else none
           let fields ← mapMO (fun (fi : Nat × (String × LTy)) =>
             match Lang.lookup given fi.2.1 with
             | some v => lowerE s fuel ctx v
             | none =>
               match spread with
               | some sp => do
                 let t ← lowerE s fuel ctx sp
                 .ok (builtin .property [t, .leaf (.number fi.1)])
               | none => lerr "MissingRequiredField") ((List.range cd.fields.length).zip cd.fields)
           .ok (.node (.struct ix) fields))
    | .node .anyAsset [p, n, a] => do
      let c := ctx.enterDatum
      let p' ← lowerE s fuel c p; let n' ← lowerE s fuel c n; let a' ← lowerE s fuel c a
      .ok (.node .assets [p', n', a'])
    | .node (.call f) args =>
      if f = "min_utxo" then
        (match args with
         | [a] => do let x ← lowerE s fuel ctx a; .ok (.node (.compiler .computeMinUtxo) [x])
         | _ => lerr "InvalidAst:arity")
      else if f = "tip_slot" then
        (match args with | [] => .ok (.node (.compiler .computeTipSlot) []) | _ => lerr "InvalidAst:arity")
      else if f = "slot_to_time" then
        (match args with
         | [a] => do let x ← lowerE s fuel ctx a; .ok (.node (.compiler .computeSlotToTime) [x])
         | _ => lerr "InvalidAst:arity")
      else if f = "time_to_slot" then
        (match args with
         | [a] => do let x ← lowerE s fuel ctx a; .ok (.node (.compiler .computeTimeToSlot) [x])
         | _ => lerr "InvalidAst:arity")
      else if ctx.lvl = 0 then lerr "InvalidAst:unknown-function"
      else
        (match resolve s f with
         | some (.asset p n) =>
           (match args with
            | a :: _ => do
              let (p', n') ← (if f = "Ada" && !(s.prog.assets.any (·.1 = "Ada")) then Outcome.ok (none', none')
                else do let p' ← lowerE s fuel ctx p; let n' ← lowerE s fuel ctx n; .ok (p', n'))
              let a' ← lowerE s fuel ctx a
              .ok (.node .assets [p', n', a'])
            | [] => lerr "InvalidAst:arity")
         | _ => lerr "InvalidAst:unknown-function")
    | _ => lerr "shape"
def lowerL (s : Scope) : Nat → Ctx → List LExpr → Outcome (List Expr)
  | 0, _, _ => lerr "fuel"
  | _ + 1, _, [] => .ok []
  | fuel + 1, ctx, c :: cs => do
    let x ← lowerE s fuel ctx c
    let xs ← lowerL s (fuel + 1) ctx cs
    .ok (x :: xs)
/-- `IntoLower for InputBlock`, as the query expression. -/
def lowerInput (s : Scope) : Nat → Ctx → InputBlock → Outcome Expr
  | 0, _, _ => lerr "fuel"
  | fuel + 1, ctx, b => do
    let opt (c : Ctx) (e : Option LExpr) : Outcome Expr :=
      match e with
      | some x => lowerE s fuel c x
      | none => .ok none'
    let address ← opt ctx.enterAddress b.«from»
    let minAmount ← opt ctx.enterAsset b.minAmount
    let r ← opt ctx b.ref
    .ok (.node (.param (.expectInput b.name.toLower b.many false)) [address, minAmount, r])
end

def lowerFuel (s : Scope) : Nat := 64 + 8 * s.tx.locals.length

def lowerOpt (s : Scope) (c : Ctx) (e : Option LExpr) : Outcome Expr :=
  match e with
  | some x => lowerE s (lowerFuel s) c x
  | none => .ok none'

/-- `IntoLower for TxDef`. -/
def lowerTx (s : Scope) : Outcome Tx := do
  let t := s.tx
  let ctx : Ctx := {}
  let references ← mapMO (fun (r : String × LExpr) => lowerE s (lowerFuel s) ctx r.2) t.references
  let inputs ← mapMO (fun (b : InputBlock) => do
    let q ← lowerInput s (lowerFuel s) ctx b
    let red ← lowerOpt s ctx.enterDatum b.redeemer
    .ok ({ name := b.name.toLower, utxos := q, redeemer := red } : Input)) t.inputs
  let outputs ← mapMO (fun (o : OutputBlock) => do
    let address ← lowerOpt s ctx.enterAddress o.to
    let datum ← lowerOpt s ctx.enterDatum o.datum
    let amount ← lowerOpt s ctx.enterAsset o.amount
    .ok ({ address, datum, amount, optional := o.optional } : Output)) t.outputs
  let validity ← (match t.validity with
    | none => Outcome.ok none
    | some (a, b) => do
      let since ← lowerOpt s ctx a
      let untl ← lowerOpt s ctx b
      .ok (some (since, untl)))
  let mint (m : MintBlock) : Outcome Mint := do
    let amount ← lowerOpt s ctx m.amount
    let redeemer ← lowerOpt s ctx m.redeemer
    .ok { amount, redeemer }
  let mints ← mapMO mint t.mints
  let burns ← mapMO mint t.burns
  let signers ← (match t.signers with
    | none => Outcome.ok none
    | some l => do let xs ← mapMO (lowerE s (lowerFuel s) ctx) l; .ok (some xs))
  let metadata ← mapMO (fun (kv : LExpr × LExpr) => do
    let k ← lowerE s (lowerFuel s) ctx kv.1
    let v ← lowerE s (lowerFuel s) ctx kv.2
    .ok ({ key := k, value := v } : Metadata)) (t.metadata.getD [])
  let collateral ← (match t.collateral with
    | none => Outcome.ok []
    | some b => do
      let address ← lowerOpt s ctx b.«from»
      let minAmount ← lowerOpt s ctx b.minAmount
      let r ← lowerOpt s ctx b.ref
      .ok [.node (.param (.expectInput "collateral" false true)) [address, minAmount, r]])
  .ok { fees := .node (.param .expectFees) [], references, inputs, outputs, validity, mints, burns,
        adhoc := [], collateral, signers, metadata }

end Tx3.Lang
