import Tx3Proofs.C15
