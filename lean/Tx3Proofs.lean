import Tx3Proofs.C15
import Tx3Proofs.C06
import Tx3Proofs.C07
import Tx3Proofs.C03
import Tx3Proofs.C04
