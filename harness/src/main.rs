//! Correspondence harness: runs the real tx3 crates on generated cases and
//! writes one JSON object per line (case + observation) for the Lean driver
//! to judge.  Every random choice derives from one splitmix64 state.

use std::io::Write;

mod common;
use common::Emitter;
mod c01p;
mod c03;
mod c13;
mod c15;
mod compilep;
mod frontp;
mod jsonp;
mod langgen;
mod resolvep;
mod stages;
mod store;
mod tirgen;
mod tirjson;
mod wirep;

fn usage() -> ! {
    eprintln!("usage: harness <property> [--seed N] [--n N] [--tier quick|thorough] [--replay FILE]");
    std::process::exit(2)
}

#[derive(Clone)]
pub struct Opts {
    pub seed: u64,
    pub n: usize,
    pub thorough: bool,
    pub replay: Option<String>,
    pub only: Option<usize>,
}

fn main() {
    let args: Vec<String> = std::env::args().collect();
    if args.len() < 2 {
        usage();
    }
    let prop = args[1].clone();
    let mut opts = Opts {
        seed: 1,
        n: 1000,
        thorough: false,
        replay: None,
        only: None,
    };
    let mut i = 2;
    while i < args.len() {
        match args[i].as_str() {
            "--seed" => {
                opts.seed = args[i + 1].parse().unwrap_or(1);
                i += 2;
            }
            "--n" => {
                opts.n = args[i + 1].parse().unwrap_or(1000);
                i += 2;
            }
            "--tier" => {
                opts.thorough = args[i + 1] == "thorough";
                i += 2;
            }
            "--only" => {
                opts.only = args[i + 1].parse().ok();
                i += 2;
            }
            "--replay" => {
                opts.replay = Some(args[i + 1].clone());
                i += 2;
            }
            _ => usage(),
        }
    }

    // panics are observations, not crashes: keep stderr quiet and record the site
    common::install_panic_hook();

    let stdout = std::io::stdout();
    let mut out = std::io::BufWriter::new(stdout.lock());

    match prop.as_str() {
        "C15" => c15::run(&opts, &mut Emitter::new(&mut out, opts.only)),
        "C03" => c03::run(&opts, &mut Emitter::new(&mut out, opts.only), false),
        "C04" => c03::run(&opts, &mut Emitter::new(&mut out, opts.only), true),
        "C08" => {
            let mut em = Emitter::new(&mut out, opts.only);
            compilep::run(&opts, &mut em, "C08");
            resolvep::run_c08_lang(&opts, &mut em);
        }
        "C02" | "C09" | "C10" => {
            compilep::run(&opts, &mut Emitter::new(&mut out, opts.only), prop.as_str())
        }
        "C14" => {
            let mut em = Emitter::new(&mut out, opts.only);
            compilep::run(&opts, &mut em, "C14");
            stages::run_c14(&opts, &mut em);
            resolvep::run_c14(&opts, &mut em);
        }
        "C11" => wirep::run_c11(&opts, &mut Emitter::new(&mut out, opts.only)),
        "C11-garbage" => wirep::run_garbage_child(&opts),
        "C01" => {
            let mut em = Emitter::new(&mut out, opts.only);
            c01p::run(&opts, &mut em);
            // the last stage on its own: reduced templates (every block already holding its UTxOs) through `compile`
            compilep::run(&opts, &mut em, "C01");
        }
        "C13" => c13::run(&opts, &mut Emitter::new(&mut out, opts.only)),
        "C12" | "C19" => frontp::run(&opts, &mut Emitter::new(&mut out, opts.only)),
        "C16" => jsonp::run(&opts, &mut Emitter::new(&mut out, opts.only)),
        "C17" => wirep::run_c17(&opts, &mut Emitter::new(&mut out, opts.only)),
        "C18" => wirep::run_c18(&opts, &mut Emitter::new(&mut out, opts.only)),
        "C18-child" => wirep::run_c18_child(&opts),
        "C12-child" => frontp::run_child(&opts, false),
        "C13-child" => frontp::run_child(&opts, true),
        "C05" => resolvep::run_c05(&opts, &mut Emitter::new(&mut out, opts.only)),
        "C20" => resolvep::run_c20(&opts, &mut Emitter::new(&mut out, opts.only)),
        "C06" => stages::run_c06(&opts, &mut Emitter::new(&mut out, opts.only)),
        "C07" => stages::run_c07(&opts, &mut Emitter::new(&mut out, opts.only)),
        _ => usage(),
    }

    out.flush().unwrap();
}
