//! The resolve probe (C05, C20): source templates → `resolve_tx` on the real
//! crates, with a compiler wrapper that records every evaluation pass.

use crate::common::*;
use crate::store::{self, MemStore};
use crate::tirgen::{ADDR_A, ADDR_B};
use crate::Opts;
use serde_json::{json, Value};
use std::cell::RefCell;
use std::collections::BTreeMap;
use tx3_tir::compile::{CompiledTx, Compiler as CompilerTrait};
use tx3_tir::encoding::AnyTir;
use tx3_tir::model::assets::CanonicalAssets;
use tx3_tir::model::core::{Utxo, UtxoRef};
use tx3_tir::model::v1beta0 as tir;
use tx3_tir::reduce::ArgValue;

/// Delegates to the real compiler and records each compilation.
pub struct Tracing {
    pub inner: tx3_cardano::Compiler,
    pub passes: RefCell<Vec<Value>>,
    pub resets: RefCell<usize>,
    /// the IR handed to the last compilation
    pub last_tir: RefCell<Value>,
}

impl Tracing {
    pub fn new(inner: tx3_cardano::Compiler) -> Self {
        Tracing {
            inner,
            passes: RefCell::new(vec![]),
            resets: RefCell::new(0),
            last_tir: RefCell::new(Value::Null),
        }
    }
    pub fn take(&self) -> Vec<Value> {
        self.passes.borrow_mut().drain(..).collect()
    }
}

fn fees_of(t: &AnyTir) -> Value {
    let AnyTir::V1Beta0(tx) = t;
    match tx3_cardano::coercion::expr_into_number(&tx.fees) {
        Ok(n) => int(n),
        Err(_) => Value::Null,
    }
}

impl CompilerTrait for Tracing {
    type CompilerOp = tir::CompilerOp;
    type Expression = tir::Expression;

    fn compile(&mut self, t: &AnyTir) -> Result<CompiledTx, tx3_tir::compile::Error> {
        // through the trait, as the generic resolve_tx reaches the compiler (an inherent method of the same name
        // on tx3_cardano::Compiler would otherwise be preferred here and hide what resolve_tx really calls)
        let r = <tx3_cardano::Compiler as CompilerTrait>::compile(&mut self.inner, t);
        {
            let AnyTir::V1Beta0(tx) = t;
            *self.last_tir.borrow_mut() = crate::tirjson::tx_json(tx);
        }
        let entry = match &r {
            Ok(c) => json!({"fee_in": fees_of(t), "payload": hx(&c.payload), "hash": hx(&c.hash), "fee_out": c.fee}),
            Err(e) => json!({"fee_in": fees_of(t), "err": crate::stages::compile_err_class(e)}),
        };
        self.passes.borrow_mut().push(entry);
        r
    }

    fn reduce_op(&self, op: Self::CompilerOp) -> Result<Self::Expression, tx3_tir::reduce::Error> {
        <tx3_cardano::Compiler as CompilerTrait>::reduce_op(&self.inner, op)
    }

    fn reset(&mut self) {
        *self.resets.borrow_mut() += 1;
        <tx3_cardano::Compiler as CompilerTrait>::reset(&mut self.inner);
    }
}

#[derive(Clone, Debug)]
pub struct Template {
    pub src: String,
    pub tx: String,
}

pub fn lower(t: &Template) -> Option<tir::Tx> {
    let mut ws = tx3_lang::Workspace::from_string(t.src.clone());
    let r = guarded(|| ws.lower().map(|_| ws.tir(&t.tx).cloned()));
    match r {
        Ok(Ok(Some(tx))) => Some(tx),
        _ => None,
    }
}

/// Templates that use `fees` in outputs and/or `min_amount`, with and without `min_utxo`,
/// and with 0..5 outputs.
pub fn template(kind: usize, outputs: usize) -> Template {
    let mut extra = String::new();
    for i in 0..outputs {
        extra.push_str(&format!(
            "    output o{i} {{\n        to: Receiver,\n        amount: Ada({}),\n    }}\n",
            1_000_000 + i * 7
        ));
    }
    let (min_amount, change) = match kind % 5 {
        0 => ("Ada(quantity)".to_string(), "source - Ada(quantity) - fees".to_string()),
        1 => ("Ada(quantity) + fees".to_string(), "source - Ada(quantity) - fees".to_string()),
        2 => (
            "fees + min_utxo(change)".to_string(),
            "source - fees - Ada(quantity)".to_string(),
        ),
        3 => (
            "Ada(quantity) + fees + min_utxo(change)".to_string(),
            "source - Ada(quantity) - fees".to_string(),
        ),
        _ => ("fees".to_string(), "source - fees".to_string()),
    };
    let first = if kind % 5 == 4 {
        String::new()
    } else if kind % 5 == 2 {
        "    output first {\n        to: Receiver,\n        amount: Ada(quantity),\n    }\n".to_string()
    } else {
        "    output first {\n        to: Receiver,\n        amount: Ada(quantity),\n    }\n".to_string()
    };
    // everything else a transaction body can carry rides along in some of the templates: required signers
    // (one or two), a validity interval, metadata - the fee has to be the fee of the payload whatever is in it
    let riders = match (kind / 5 + outputs) % 4 {
        1 => "    signers {\n        Sender,\n    }\n".to_string(),
        2 => "    signers {\n        Sender,\n        0x0f0f0f0f0f0f0f0f0f0f0f0f0f0f0f0f0f0f0f0f0f0f0f0f0f0f0f0f,\n    }\n    metadata {\n        674: \"rider\",\n    }\n".to_string(),
        3 => "    validity {\n        until_slot: 200000000,\n    }\n".to_string(),
        _ => String::new(),
    };
    let src = format!(
        "party Sender;\nparty Receiver;\n\ntx t(quantity: Int) {{\n    input source {{\n        from: Sender,\n        min_amount: {min_amount},\n    }}\n{first}{extra}    output change {{\n        to: Sender,\n        amount: {change},\n    }}\n{riders}}}\n"
    );
    Template { src, tx: "t".into() }
}

/// A template that asks for `min_utxo` of its last output (index `outputs`).
pub fn min_utxo_template(outputs: usize) -> Template {
    let mut extra = String::new();
    for i in 0..outputs {
        extra.push_str(&format!(
            "    output o{i} {{\n        to: Receiver,\n        amount: Ada({}),\n    }}\n",
            2_000_000 + i
        ));
    }
    let src = format!(
        "party Sender;\nparty Receiver;\n\ntx t(quantity: Int) {{\n    input source {{\n        from: Sender,\n        min_amount: fees + min_utxo(last) + Ada(quantity),\n    }}\n{extra}    output last {{\n        to: Receiver,\n        amount: min_utxo(last),\n    }}\n    output change {{\n        to: Sender,\n        amount: source - fees - min_utxo(last) - Ada({}),\n    }}\n}}\n",
        outputs as i128 * 2_000_000 + (outputs * outputs.saturating_sub(1) / 2) as i128
    );
    Template { src, tx: "t".into() }
}

/// Validity bounds and metadata written with the built-ins that read the compiler's chain point (`tip_slot`,
/// `slot_to_time`, `time_to_slot`), some of them with a start well after that point: whatever an instance does with
/// the bounds of one transaction must not show in the next.
pub fn validity_template(kind: usize) -> Template {
    let (since, until, meta) = match kind % 5 {
        0 => ("200000000 + quantity", "tip_slot() + 600", "slot_to_time(tip_slot() + 5)"),
        1 => ("tip_slot()", "tip_slot() + quantity", "time_to_slot(1757711408000)"),
        2 => ("time_to_slot(1757711408000)", "300000000", "tip_slot()"),
        3 => ("150000000", "tip_slot() + 900000000", "slot_to_time(150000000)"),
        _ => ("tip_slot() + 7", "tip_slot() + 8", "quantity"),
    };
    let src = format!(
        "party Sender;\nparty Receiver;\n\ntx t(quantity: Int) {{\n    input source {{\n        from: Sender,\n        min_amount: Ada(quantity) + fees,\n    }}\n    output {{\n        to: Receiver,\n        amount: Ada(quantity),\n    }}\n    output {{\n        to: Sender,\n        amount: source - Ada(quantity) - fees,\n    }}\n    validity {{\n        since_slot: {since},\n        until_slot: {until},\n    }}\n    metadata {{\n        1: {meta},\n    }}\n}}\n"
    );
    Template { src, tx: "t".into() }
}

/// A mint under a Plutus (version 1-3, with a redeemer) or native script: the witness set, and with it the
/// language view behind the script data hash, differs from template to template.
pub fn script_template(version: u8, outputs: usize) -> Template {
    let mut extra = String::new();
    for i in 0..outputs {
        extra.push_str(&format!("    output o{i} {{\n        to: Receiver,\n        amount: Ada({}),\n    }}\n", 1_500_000 + i * 3));
    }
    let (redeemer, witness) = if version == 0 {
        ("", "    cardano::native_witness {\n        script: 0x820181820400,\n    }\n".to_string())
    } else {
        ("        redeemer: (),\n", format!("    cardano::plutus_witness {{\n        version: {version},\n        script: 0x5101010023259800a518a4d136564004ae69,\n    }}\n"))
    };
    let src = format!(
        "party Sender;\nparty Receiver;\n\ntx t(quantity: Int) {{\n    locals {{\n        new_token: AnyAsset(0xbd3ae991b5aafccafe5ca70758bd36a9b2f872f57f6d3a1ffa0eb777, \"ABC\", quantity),\n    }}\n    input source {{\n        from: Sender,\n        min_amount: fees + Ada({}),\n    }}\n    collateral {{\n        from: Sender,\n        min_amount: fees,\n    }}\n    mint {{\n        amount: new_token,\n{redeemer}    }}\n{extra}    output {{\n        to: Receiver,\n        amount: source + new_token - fees - Ada({}),\n    }}\n{witness}}}\n",
        outputs * 1_500_000 + outputs * outputs.saturating_sub(1) / 2 * 3,
        outputs * 1_500_000 + outputs * outputs.saturating_sub(1) / 2 * 3,
    );
    Template { src, tx: "t".into() }
}

/// C08 from the source: one expression written as the redeemer of an input block, of a mint block and of a
/// withdrawal: the three redeemers of the compiled transaction must carry the same data (what a redeemer means does not
/// depend on the kind of block it is written in).
pub fn run_c08_lang(_opts: &Opts, out: &mut Emitter) {
    let exprs = ["()", "7", "quantity", "quantity + 1", "Guard", "R { a: quantity, b: 0xab, }", "R { b: 0xab, a: 1, }", "true", "0xc0ffee",
                 "[1, 2]", "[Guard, 0xab]", "\"txt\"", "V::B {}", "V::A { x: quantity, }"];
    for e in exprs {
        for mainnet in [false, true] {
            let src = format!(
                "party Sender;\nparty Receiver;\nparty Staker;\npolicy Guard = 0x6b9c456aa650cb808a9ab54326e039d5235ed69f069c9664a8fe5b69;\ntype R {{\n    a: Int,\n    b: Bytes,\n}}\ntype V {{\n    A {{ x: Int, }},\n    B,\n}}\n\ntx t(quantity: Int) {{\n    input source {{\n        from: Sender,\n        min_amount: fees + Ada(quantity),\n        redeemer: {e},\n    }}\n    collateral {{\n        from: Sender,\n        min_amount: fees,\n    }}\n    mint {{\n        amount: AnyAsset(0xbd3ae991b5aafccafe5ca70758bd36a9b2f872f57f6d3a1ffa0eb777, \"ABC\", 1),\n        redeemer: {e},\n    }}\n    cardano::withdrawal {{\n        from: Staker,\n        amount: 0,\n        redeemer: {e},\n    }}\n    output {{\n        to: Receiver,\n        amount: source + AnyAsset(0xbd3ae991b5aafccafe5ca70758bd36a9b2f872f57f6d3a1ffa0eb777, \"ABC\", 1) - fees,\n    }}\n    cardano::plutus_witness {{\n        version: 2,\n        script: 0x5101010023259800a518a4d136564004ae69,\n    }}\n}}\n"
            );
            let t = Template { src: src.clone(), tx: "t".into() };
            out.case("lang-redeemers", || {
                let Some(tx) = lower(&t) else { return json!({"probe": "lang-redeemers", "expr": e, "src": src, "obs": {"class": "front-end"}}) };
                let mut args = args_for(2_000_000);
                let mut staker = vec![if mainnet { 0xe1u8 } else { 0xe0 }];
                staker.extend([0xcc; 28]);
                args.insert("staker".into(), ArgValue::Address(staker));
                let mut c = Tracing::new(store::compiler(store::pparams(mainnet, 44, 155_381, 4310, true), Some(0)));
                let res = resolve_outcome(&mut c, &tx, &args, &store_with(&[60_000_000, 7_000_000]), 3);
                json!({"probe": "lang-redeemers", "expr": e, "mainnet": mainnet, "src": src, "obs": res})
            });
        }
    }
}

pub fn args_for(q: i128) -> BTreeMap<String, ArgValue> {
    BTreeMap::from([
        ("sender".to_string(), ArgValue::Address(ADDR_A.to_vec())),
        ("receiver".to_string(), ArgValue::Address(ADDR_B.to_vec())),
        ("quantity".to_string(), ArgValue::Int(q)),
    ])
}

pub fn store_with(amounts: &[i128]) -> MemStore {
    MemStore {
        utxos: amounts
            .iter()
            .enumerate()
            .map(|(i, a)| Utxo {
                r#ref: UtxoRef {
                    txid: vec![((i % 250) + 1) as u8; 32],
                    index: (i / 250) as u32,
                },
                address: ADDR_A.to_vec(),
                assets: CanonicalAssets::from_naked_amount(*a),
                datum: None,
                script: None,
            })
            .collect(),
    }
}

pub fn resolve_outcome(
    c: &mut Tracing,
    tx: &tir::Tx,
    args: &BTreeMap<String, ArgValue>,
    st: &MemStore,
    rounds: usize,
) -> Value {
    let r = guarded(|| {
        pollster::block_on(tx3_resolver::resolve_tx(
            AnyTir::V1Beta0(tx.clone()),
            args,
            c,
            st,
            rounds,
        ))
    });
    match r {
        Ok(Ok(ctx)) => json!({"ok": {"payload": hx(&ctx.payload), "hash": hx(&ctx.hash), "fee": ctx.fee}}),
        other => json!({"class": crate::stages::resolve_class(&other)}),
    }
}

pub fn run_c05(opts: &Opts, out: &mut Emitter) {
    let mut r = Rng::new(opts.seed ^ 0x0505);
    // corpus: the reproduced oscillation (transfer, a=44, b=155381, margin 0, q=1e6, input 4296128573)
    {
        let t = template(0, 0);
        if let Some(tx) = lower(&t) {
            let st = store_with(&[4_296_128_573]);
            out.case("corpus", || {
                let mut c = Tracing::new(store::compiler(store::pparams(false, 44, 155_381, 4310, true), Some(0)));
                let res = resolve_outcome(&mut c, &tx, &args_for(1_000_000), &st, 3);
                json!({"src": t.src, "a": 44, "b": 155381, "margin": 0, "rounds": 3, "store": [int(4_296_128_573)], "quantity": int(1_000_000),
                       "obs": {"result": res, "trace": c.take(), "resets": *c.resets.borrow()}})
            });
        }
    }
    // the fee reaches every place that asks for it, and as the very same number: the real apply_fees on every
    // template shape and on hand-built queries (input / collateral, single / multi, the fee alone or inside a sum)
    {
        let mut shapes: Vec<tir::Tx> = vec![];
        for kind in 0..5 {
            for outputs in 0..2 {
                if let Some(tx) = lower(&template(kind, outputs)) {
                    shapes.push(tx);
                }
            }
        }
        for coll in [false, true] {
            for many in [false, true] {
                for sum in [false, true] {
                    let fees = crate::tirjson::fees_param();
                    let min = if sum {
                        tir::Expression::EvalBuiltIn(Box::new(tir::BuiltInOp::Add(fees, crate::tirjson::ada(5))))
                    } else {
                        fees
                    };
                    let q = tir::InputQuery { address: tir::Expression::Address(ADDR_A.to_vec()), min_amount: min, r#ref: tir::Expression::None, many, collateral: coll };
                    let mut t = crate::tirjson::empty_tx();
                    t.fees = crate::tirjson::fees_param();
                    let name = if coll { "collateral" } else { "in0" };
                    let e = crate::tirjson::input_param(name, q);
                    if coll {
                        t.collateral.push(tir::Collateral { utxos: e });
                    } else {
                        t.inputs.push(tir::Input { name: name.into(), utxos: e, redeemer: tir::Expression::None });
                    }
                    shapes.push(t);
                }
            }
        }
        for tx in shapes.iter() {
            for fee in [0u64, 170_000, 200_001, 1 << 32] {
                out.case("apply-fees", || {
                    let after = crate::stages::outcome_tx(guarded(|| tx3_tir::reduce::apply_fees(tx.clone(), fee))).0;
                    json!({"probe": "apply-fees", "tx": crate::tirjson::tx_json(tx), "fee": fee, "obs": {"after": after}})
                });
            }
        }
    }
    // the fee estimate itself, on payload lengths and protocol parameters from the edges of their types
    for len in [0usize, 1, 200, 16_384] {
        for a in [0u64, 1, 44, 1 << 32, u64::MAX / 200, u64::MAX / 200 + 1, u64::MAX] {
            for b in [0u64, 155_381, u64::MAX - 200_000, u64::MAX] {
                for extra in [None, Some(0u64), Some(1), Some(u64::MAX)] {
                    out.case("size-fees", || {
                        let payload = vec![0u8; len];
                        let pp = store::pparams(false, a, b, 4310, true);
                        let obs = match guarded(|| tx3_cardano::ops::eval_size_fees(&payload, &pp, extra)) {
                            Ok(Ok(f)) => json!({"ok": f.to_string()}),
                            Ok(Err(_)) => json!({"err": true}),
                            Err(site) => json!({"panic": site}),
                        };
                        json!({"probe": "size-fees", "len": len, "a": a.to_string(), "b": b.to_string(),
                               "margin": extra.unwrap_or(200_000).to_string(), "obs": obs})
                    });
                }
            }
        }
    }
    for k in 0..opts.n {
        let kind = k % 5;
        let t = template(kind, (r.below(3)) as usize);
        let Some(tx) = lower(&t) else { continue };
        let a = *r.pick(&[0u64, 1, 44, 44, 44, 1000]);
        let b = *r.pick(&[0u64, 155_381, 155_381, 1_000_000]);
        // the configured margin: absent (the default applies), none, small, the sizes people set, and large ones
        let extra = *r.pick(&[None, Some(0u64), Some(0), Some(5000), Some(1), Some(200_000), Some(1_200_000), Some(4_999_999),
            Some(5_000_000), Some(5_000_001), Some(7_500_000), Some(25_000_000), Some(1_000_000_000), Some(1 << 32), Some(1 << 40)]);
        let margin: u64 = extra.unwrap_or(200_000);
        let q: i128 = *r.pick(&[1_000_000i128, 2_000_000, 5]);
        // aim the change (or the fee) at a CBOR width boundary: 24, 2^8, 2^16, 2^32
        let width = *r.pick(&[24i128, 1 << 8, 1 << 16, 1 << 16, 1 << 32, 1 << 32, 1 << 32]);
        let len_guess = r.range(120, 330) as i128;
        let fee_guess = a as i128 * len_guess + b as i128 + margin as i128;
        let jitter = r.range(-40, 40) as i128 * (a as i128).max(1) / 8;
        let input = match r.below(4) {
            0 => r.range(3_000_000, 80_000_000) as i128 + margin as i128,
            _ => (width + q + fee_guess + jitter).max(1),
        };
        let mut amounts = vec![input];
        if r.chance(1, 4) {
            amounts.push(r.range(1_000_000, 9_000_000) as i128);
        }
        let rounds = *r.pick(&[0usize, 3, 3, 10]);
        let st = store_with(&amounts);
        out.case("random", || {
            let mut c = Tracing::new(store::compiler(store::pparams(false, a, b, 4310, true), extra));
            let res = resolve_outcome(&mut c, &tx, &args_for(q), &st, rounds);
            json!({"src": t.src, "a": a, "b": b, "margin": margin, "rounds": rounds,
                   "store": amounts.iter().map(|x| int(*x)).collect::<Vec<_>>(), "quantity": int(q),
                   "obs": {"result": res, "trace": c.take(), "resets": *c.resets.borrow()}})
        });
    }
}

pub fn run_c20(opts: &Opts, out: &mut Emitter) {
    let mut r = Rng::new(opts.seed ^ 0x2020);
    // (the price per byte varies: around 290 the min-utxo of a plain output sits on a CBOR width boundary, where the
    // rounds can settle on more than one amount - and must settle on the same one whatever came before)
    let cpb_of = |k: usize| -> u64 { [4310u64, 289, 290, 291, 4310, 1, 288, 292][k % 8] };
    let mk_template = |r: &mut Rng| -> Template {
        if r.chance(1, 4) {
            validity_template(r.below(5) as usize)
        } else if r.chance(1, 3) {
            script_template(r.below(4) as u8, r.below(3) as usize)
        } else if r.chance(1, 2) {
            min_utxo_template(r.below(5) as usize)
        } else {
            template(r.below(5) as usize, r.below(4) as usize)
        }
    };
    // corpus: resolve a 2-output template, then one using min_utxo of its third output
    let mut plans: Vec<(Vec<(Template, i128, Vec<i128>)>, (Template, i128, Vec<i128>))> = vec![(
        vec![(template(4, 0), 1_000_000, vec![50_000_000])],
        (min_utxo_template(2), 1_000_000, vec![90_000_000]),
    )];
    for _ in 0..opts.n {
        let hn = r.below(5) as usize;
        let mut h = vec![];
        for _ in 0..hn {
            let t = mk_template(&mut r);
            // some history items fail (store too poor)
            let amt = if r.chance(1, 4) { 10 } else { r.range(20_000_000, 90_000_000) as i128 };
            // a poor store stays poor (the resolution fails half-way, after some passes have compiled)
            h.push((t, *r.pick(&[1_000_000i128, 3_000_000]), if amt == 10 { vec![amt] } else { vec![amt, 7_000_000] }));
        }
        let t = mk_template(&mut r);
        let amt = if r.chance(1, 8) { 10 } else { r.range(20_000_000, 90_000_000) as i128 };
        plans.push((h, (t, *r.pick(&[1_000_000i128, 3_000_000]), if amt == 10 { vec![amt] } else { vec![amt, 7_000_000] })));
    }
    // the price per byte swept across the range where the min-utxo of a small output crosses a CBOR width (65535 /
    // 65536 lovelace): there the rounds have two fixed points, and which one they reach must not depend on what the
    // instance resolved before
    let mut priced: Vec<(u64, (Vec<(Template, i128, Vec<i128>)>, (Template, i128, Vec<i128>)))> = vec![];
    for cpb in 280u64..=420 {
        for outs in [0usize, 1] {
            priced.push((cpb, (vec![(min_utxo_template(outs), 1_000_000, vec![90_000_000, 7_000_000]), (template(2, 1), 1_000_000, vec![90_000_000, 7_000_000])],
                               (min_utxo_template(outs), 1_000_000, vec![90_000_000, 7_000_000]))));
        }
    }
    let n_random = plans.len();
    let all_plans: Vec<(Option<u64>, (Vec<(Template, i128, Vec<i128>)>, (Template, i128, Vec<i128>)))> =
        plans.into_iter().map(|p| (None, p)).chain(priced.into_iter().map(|(c, p)| (Some(c), p))).collect();
    for (k, (fixed_cpb, (history, target))) in all_plans.into_iter().enumerate() {
        let Some(target_tx) = lower(&target.0) else { continue };
        let hist: Vec<(tir::Tx, i128, Vec<i128>)> = history
            .iter()
            .filter_map(|(t, q, a)| lower(t).map(|tx| (tx, *q, a.clone())))
            .collect();
        // a third of the targets arrive with their arguments already applied (a host may store such a template and
        // resolve it with no arguments at all)
        let preapplied = k % 3 == 2;
        let (target_tx, target_args) = if preapplied {
            match guarded(|| tx3_tir::reduce::apply_args(target_tx.clone(), &args_for(target.1))) {
                Ok(Ok(t)) => (t, BTreeMap::new()),
                _ => (target_tx, args_for(target.1)),
            }
        } else {
            (target_tx, args_for(target.1))
        };
        let cpb = fixed_cpb.unwrap_or_else(|| cpb_of(k));
        let pp = || store::pparams(false, 44, 155_381, cpb, true);
        let preapplied = preapplied && k < n_random;
        out.case(if fixed_cpb.is_some() { "width-boundary" } else if k == 0 { "corpus" } else if preapplied { "random-preapplied" } else { "random" }, || {
            // fresh instance
            let mut fresh = Tracing::new(store::compiler(pp(), Some(0)));
            let fresh_res = resolve_outcome(&mut fresh, &target_tx, &target_args, &store_with(&target.2), 3);
            // used instance
            let mut used = Tracing::new(store::compiler(pp(), Some(0)));
            let mut hist_res = vec![];
            for (tx, q, a) in &hist {
                hist_res.push(resolve_outcome(&mut used, tx, &args_for(*q), &store_with(a), 3));
            }
            used.take();
            let used_res = resolve_outcome(&mut used, &target_tx, &target_args, &store_with(&target.2), 3);
            // also straight compile() calls in the history (the state is set by compile, not only by resolve_tx)
            json!({"history": history.iter().map(|(t, q, a)| json!({"src": t.src, "q": int(*q), "store": a.iter().map(|x| int(*x)).collect::<Vec<_>>()})).collect::<Vec<_>>(),
                   "history_results": hist_res,
                   "target": {"src": target.0.src, "q": int(target.1), "store": target.2.iter().map(|x| int(*x)).collect::<Vec<_>>(), "coins_per_byte": cpb},
                   "obs": {"fresh": fresh_res, "used": used_res, "trace_fresh": fresh.take(), "trace_used": used.take()}})
        });
    }
}

/// An optional output that vanishes when `tip` is 0, followed by an output whose min-utxo is
/// asked for: the index of `change` in the compiled body depends on the argument.
pub fn optional_template() -> Template {
    let src = "party Sender;\nparty Receiver;\n\ntx t(quantity: Int, tip: Int) {\n    input source {\n        from: Sender,\n        min_amount: fees + min_utxo(change) + Ada(tip) + Ada(quantity),\n    }\n    output ? gift {\n        to: Receiver,\n        amount: Ada(tip),\n    }\n    output change {\n        to: Sender,\n        amount: source - fees - Ada(tip),\n    }\n}\n".to_string();
    Template { src, tx: "t".into() }
}

/// C14: resolution-level totality (templates with min_utxo, optional outputs that vanish, poor
/// stores, boundary arguments) and the min-utxo op against a remembered body.
pub fn run_c14(opts: &Opts, out: &mut Emitter) {
    use tx3_tir::compile::Compiler as _;
    let mut r = Rng::new(opts.seed ^ 0x1415);
    // min_utxo(n) with a remembered body of k outputs, n around k and at the extremes
    for k in 0..5usize {
        let mut tx = crate::tirjson::empty_tx();
        tx.fees = crate::tirjson::ada(1);
        for i in 0..k {
            tx.outputs.push(tir::Output {
                address: tir::Expression::Address(ADDR_A.to_vec()),
                datum: tir::Expression::None,
                amount: crate::tirjson::ada(1_000_000 + (i as i128) * 70_000),
                optional: false,
            });
        }
        let cands: Vec<i128> = vec![-1, 0, k as i128 - 1, k as i128, k as i128 + 1, 1 << 32, 1 << 64, i128::MAX, i128::MIN];
        for n in cands {
            out.case("min-utxo-op", || {
                let mut c = store::compiler(store::pparams(false, 44, 155_381, 4310, true), Some(0));
                let compiled = guarded(|| c.compile(&AnyTir::V1Beta0(tx.clone())));
                let sizes: Vec<usize> = match &c.latest_tx_body {
                    Some(b) => b
                        .outputs
                        .iter()
                        .map(|o| tx3_cardano::pallas::codec::minicbor::to_vec(o).map(|v| v.len()).unwrap_or(0))
                        .collect(),
                    None => vec![],
                };
                let has_body = c.latest_tx_body.is_some();
                let op = guarded(|| c.reduce_op(tir::CompilerOp::ComputeMinUtxo(tir::Expression::Number(n))));
                let obs = match op {
                    Ok(Ok(tir::Expression::Assets(a))) if a.len() == 1 => match &a[0].amount {
                        tir::Expression::Number(x) => json!({"ok": int(*x)}),
                        _ => json!({"ok": Value::Null}),
                    },
                    Ok(Ok(_)) => json!({"ok": Value::Null}),
                    Ok(Err(e)) => json!({"err": crate::stages::reduce_err_class(&e)}),
                    Err(site) => json!({"panic": site}),
                };
                json!({"probe": "minutxo", "k": k, "n": int(n), "sizes": sizes, "has_body": has_body,
                       "compiled_ok": matches!(compiled, Ok(Ok(_))), "coins_per_byte": 4310, "obs": obs})
            });
        }
    }
    // resolution-level cases
    for _ in 0..opts.n {
        let (t, with_tip) = match r.below(4) {
            0 => (optional_template(), true),
            1 => (min_utxo_template(r.below(4) as usize), false),
            _ => (template(r.below(5) as usize, r.below(3) as usize), false),
        };
        let Some(tx) = lower(&t) else { continue };
        let q = match r.below(4) {
            0 => boundary_i128(&mut r),
            _ => *r.pick(&[0i128, 1, 1_000_000]),
        };
        let tip = *r.pick(&[0i128, 0, 1, 2_000_000]);
        let mut args = args_for(q);
        if with_tip {
            args.insert("tip".into(), ArgValue::Int(tip));
        }
        let amounts: Vec<i128> = match r.below(4) {
            0 => vec![10],
            1 => vec![r.range(5_000_000, 90_000_000) as i128],
            // a wallet of many UTxOs, around and beyond the 50 the selector looks at
            2 => {
                let n = *r.pick(&[49usize, 50, 51, 52, 64, 120, 300]);
                (0..n).map(|_| r.range(1_000_000, 3_000_000) as i128).collect()
            }
            _ => vec![r.range(1_000_000, 9_000_000) as i128, r.range(1_000_000, 90_000_000) as i128],
        };
        let cost_models = !r.chance(1, 8);
        let st = store_with(&amounts);
        // every protocol-parameter set: a third of the cases draw each number from the edges of its type
        let (a, b, cpb, extra) = if r.chance(1, 3) {
            (*r.pick(&[0u64, 1, 44, 1000, 1 << 32, u64::MAX]), *r.pick(&[0u64, 155_381, 1_000_000, u64::MAX]),
             *r.pick(&[0u64, 1, 4310, u64::MAX]), *r.pick(&[None, Some(0u64), Some(200_000), Some(u64::MAX)]))
        } else {
            (44, 155_381, 4310, Some(0))
        };
        out.case("resolve", || {
            let mut c = Tracing::new(store::compiler(store::pparams(false, a, b, cpb, cost_models), extra));
            let res = resolve_outcome(&mut c, &tx, &args, &st, 3);
            json!({"probe": "resolve", "src": t.src, "quantity": int(q), "tip": int(tip),
                   "pparams": [json!(a.to_string()), json!(b.to_string()), json!(cpb.to_string()), json!(extra.map(|x| x.to_string()))],
                   "store": amounts.iter().map(|x| int(*x)).collect::<Vec<_>>(), "obs": {"result": res, "passes": c.take().len()}})
        });
    }
}
