//! TIR ⇄ the line protocol's uniform tree.  Every `match` over a TIR type is
//! exhaustive and wildcard-free: a new variant or field in the repository
//! makes this file fail to compile, which the check reports as a broken tie.

use crate::common::*;
use serde_json::{json, Value};
use std::collections::{HashMap, HashSet};
use tx3_tir::model::assets::CanonicalAssets;
use tx3_tir::model::core::{Type, Utxo, UtxoRef};
use tx3_tir::model::v1beta0 as tir;
use tx3_tir::model::v1beta0::Expression as E;

pub fn ty_json(t: &Type) -> Value {
    match t {
        Type::Undefined => json!("undefined"),
        Type::Unit => json!("unit"),
        Type::Int => json!("int"),
        Type::Bool => json!("bool"),
        Type::Bytes => json!("bytes"),
        Type::Address => json!("address"),
        Type::Utxo => json!("utxo"),
        Type::UtxoRef => json!("utxoRef"),
        Type::AnyAsset => json!("anyAsset"),
        Type::List => json!("list"),
        Type::Map => json!("map"),
        Type::Custom(s) => json!(format!("custom:{s}")),
    }
}

pub fn ref_json(r: &UtxoRef) -> Value {
    let UtxoRef { txid, index } = r;
    json!([hx(txid), index])
}

fn leaf(tag: &str, v: Value) -> Value {
    json!({"l": tag, "v": v})
}

fn node(k: Value, cs: Vec<Value>) -> Value {
    let mut k = k;
    k["c"] = Value::Array(cs);
    k
}

pub fn sorted_utxos(us: &HashSet<Utxo>) -> Vec<&Utxo> {
    let mut v: Vec<&Utxo> = us.iter().collect();
    v.sort_by(|a, b| (&a.r#ref.txid, a.r#ref.index).cmp(&(&b.r#ref.txid, b.r#ref.index)));
    v
}

pub fn utxo_set_json(us: &HashSet<Utxo>) -> Value {
    let mut metas = vec![];
    let mut cs = vec![];
    for u in sorted_utxos(us) {
        let Utxo {
            r#ref,
            address,
            assets,
            datum,
            script,
        } = u;
        metas.push(json!({
            "ref": ref_json(r#ref),
            "address": hx(address),
            "assets": crate::c15::dump(assets),
            "hasDatum": datum.is_some(),
            "hasScript": script.is_some(),
        }));
        if let Some(d) = datum {
            cs.push(expr_json(d));
        }
        if let Some(s) = script {
            cs.push(expr_json(s));
        }
    }
    node(json!({"k": "utxoSet", "metas": metas}), cs)
}

pub fn query_children(q: &tir::InputQuery) -> (bool, bool, Vec<Value>) {
    let tir::InputQuery {
        address,
        min_amount,
        r#ref,
        many,
        collateral,
    } = q;
    (
        *many,
        *collateral,
        vec![expr_json(address), expr_json(min_amount), expr_json(r#ref)],
    )
}

pub fn adhoc_json(d: &tir::AdHocDirective) -> Value {
    let tir::AdHocDirective { name, data } = d;
    let mut keys: Vec<&String> = data.keys().collect();
    keys.sort();
    let cs = keys.iter().map(|k| expr_json(&data[*k])).collect();
    node(json!({"k": "adhoc", "name": name, "keys": keys}), cs)
}

pub fn expr_json(e: &E) -> Value {
    match e {
        E::None => json!({"l": "none"}),
        E::Bytes(b) => leaf("bytes", json!(hx(b))),
        E::Number(n) => leaf("number", int(*n)),
        E::Bool(b) => leaf("bool", json!(b)),
        E::String(s) => leaf("string", json!(s)),
        E::Address(b) => leaf("address", json!(hx(b))),
        E::Hash(b) => leaf("hash", json!(hx(b))),
        E::UtxoRefs(rs) => leaf("refs", Value::Array(rs.iter().map(ref_json).collect())),
        E::UtxoSet(us) => utxo_set_json(us),
        E::List(xs) => node(json!({"k": "list"}), xs.iter().map(expr_json).collect()),
        E::Map(kvs) => node(
            json!({"k": "map"}),
            kvs.iter()
                .flat_map(|(k, v)| [expr_json(k), expr_json(v)])
                .collect(),
        ),
        E::Tuple(t) => {
            let (a, b) = t.as_ref();
            node(json!({"k": "tuple"}), vec![expr_json(a), expr_json(b)])
        }
        E::Struct(s) => {
            let tir::StructExpr {
                constructor,
                fields,
            } = s;
            node(
                json!({"k": "struct", "ctor": constructor}),
                fields.iter().map(expr_json).collect(),
            )
        }
        E::Assets(xs) => node(
            json!({"k": "assets"}),
            xs.iter()
                .flat_map(|a| {
                    let tir::AssetExpr {
                        policy,
                        asset_name,
                        amount,
                    } = a;
                    [expr_json(policy), expr_json(asset_name), expr_json(amount)]
                })
                .collect(),
        ),
        E::EvalParam(p) => match p.as_ref() {
            tir::Param::Set(x) => node(json!({"k": "set"}), vec![expr_json(x)]),
            tir::Param::ExpectValue(name, ty) => {
                node(json!({"k": "expectValue", "name": name, "ty": ty_json(ty)}), vec![])
            }
            tir::Param::ExpectInput(name, q) => {
                let (many, collateral, cs) = query_children(q);
                node(
                    json!({"k": "expectInput", "name": name, "many": many, "collateral": collateral}),
                    cs,
                )
            }
            tir::Param::ExpectFees => node(json!({"k": "expectFees"}), vec![]),
        },
        E::EvalBuiltIn(op) => match op.as_ref() {
            tir::BuiltInOp::NoOp(x) => node(json!({"k": "b.noop"}), vec![expr_json(x)]),
            tir::BuiltInOp::Add(x, y) => {
                node(json!({"k": "b.add"}), vec![expr_json(x), expr_json(y)])
            }
            tir::BuiltInOp::Sub(x, y) => {
                node(json!({"k": "b.sub"}), vec![expr_json(x), expr_json(y)])
            }
            tir::BuiltInOp::Concat(x, y) => {
                node(json!({"k": "b.concat"}), vec![expr_json(x), expr_json(y)])
            }
            tir::BuiltInOp::Negate(x) => node(json!({"k": "b.negate"}), vec![expr_json(x)]),
            tir::BuiltInOp::Property(x, i) => {
                node(json!({"k": "b.property"}), vec![expr_json(x), expr_json(i)])
            }
        },
        E::EvalCompiler(op) => match op.as_ref() {
            tir::CompilerOp::BuildScriptAddress(x) => {
                node(json!({"k": "c.buildScriptAddress"}), vec![expr_json(x)])
            }
            tir::CompilerOp::ComputeMinUtxo(x) => {
                node(json!({"k": "c.computeMinUtxo"}), vec![expr_json(x)])
            }
            tir::CompilerOp::ComputeTipSlot => node(json!({"k": "c.computeTipSlot"}), vec![]),
            tir::CompilerOp::ComputeSlotToTime(x) => {
                node(json!({"k": "c.computeSlotToTime"}), vec![expr_json(x)])
            }
            tir::CompilerOp::ComputeTimeToSlot(x) => {
                node(json!({"k": "c.computeTimeToSlot"}), vec![expr_json(x)])
            }
        },
        E::EvalCoerce(c) => match c.as_ref() {
            tir::Coerce::NoOp(x) => node(json!({"k": "k.noop"}), vec![expr_json(x)]),
            tir::Coerce::IntoAssets(x) => node(json!({"k": "k.intoAssets"}), vec![expr_json(x)]),
            tir::Coerce::IntoDatum(x) => node(json!({"k": "k.intoDatum"}), vec![expr_json(x)]),
            tir::Coerce::IntoScript(x) => node(json!({"k": "k.intoScript"}), vec![expr_json(x)]),
        },
        E::AdHocDirective(d) => adhoc_json(d),
    }
}

pub fn tx_json(tx: &tir::Tx) -> Value {
    let tir::Tx {
        fees,
        references,
        inputs,
        outputs,
        validity,
        mints,
        burns,
        adhoc,
        collateral,
        signers,
        metadata,
    } = tx;
    json!({
        "fees": expr_json(fees),
        "references": references.iter().map(expr_json).collect::<Vec<_>>(),
        "inputs": inputs.iter().map(|i| {
            let tir::Input { name, utxos, redeemer } = i;
            json!({"name": name, "utxos": expr_json(utxos), "redeemer": expr_json(redeemer)})
        }).collect::<Vec<_>>(),
        "outputs": outputs.iter().map(|o| {
            let tir::Output { address, datum, amount, optional } = o;
            json!({"address": expr_json(address), "datum": expr_json(datum), "amount": expr_json(amount), "optional": optional})
        }).collect::<Vec<_>>(),
        "validity": match validity {
            Some(tir::Validity { since, until }) => json!([expr_json(since), expr_json(until)]),
            None => Value::Null,
        },
        "mints": mints.iter().map(|m| {
            let tir::Mint { amount, redeemer } = m;
            json!({"amount": expr_json(amount), "redeemer": expr_json(redeemer)})
        }).collect::<Vec<_>>(),
        "burns": burns.iter().map(|m| {
            let tir::Mint { amount, redeemer } = m;
            json!({"amount": expr_json(amount), "redeemer": expr_json(redeemer)})
        }).collect::<Vec<_>>(),
        "adhoc": adhoc.iter().map(adhoc_json).collect::<Vec<_>>(),
        "collateral": collateral.iter().map(|c| {
            let tir::Collateral { utxos } = c;
            expr_json(utxos)
        }).collect::<Vec<_>>(),
        "signers": match signers {
            Some(tir::Signers { signers }) => Value::Array(signers.iter().map(expr_json).collect()),
            None => Value::Null,
        },
        "metadata": metadata.iter().map(|m| {
            let tir::Metadata { key, value } = m;
            json!({"key": expr_json(key), "value": expr_json(value)})
        }).collect::<Vec<_>>(),
    })
}

// ---------------------------------------------------------------------------
// a third, code-independent observer: walk the serde_json form of a TIR value
// and collect every unresolved parameter node

#[derive(Debug, Clone, PartialEq, Eq, PartialOrd, Ord)]
pub enum Unresolved {
    Value(String),
    Input(String),
    Fees,
}

pub fn walk_unresolved(v: &ciborium::Value, out: &mut Vec<Unresolved>) {
    use ciborium::Value as C;
    match v {
        C::Map(m) => {
            for (k, x) in m {
                if let C::Text(k) = k {
                    let first_text = |x: &C| match x {
                        C::Array(xs) => match xs.first() {
                            Some(C::Text(n)) => Some(n.clone()),
                            _ => None,
                        },
                        _ => None,
                    };
                    match k.as_str() {
                        "ExpectValue" => {
                            if let Some(name) = first_text(x) {
                                out.push(Unresolved::Value(name));
                            }
                        }
                        "ExpectInput" => {
                            if let Some(name) = first_text(x) {
                                out.push(Unresolved::Input(name));
                            }
                        }
                        _ => {}
                    }
                }
                walk_unresolved(k, out);
                walk_unresolved(x, out);
            }
        }
        C::Array(xs) => {
            for x in xs {
                walk_unresolved(x, out);
            }
        }
        C::Text(s) => {
            if s == "ExpectFees" {
                out.push(Unresolved::Fees);
            }
        }
        C::Tag(_, x) => walk_unresolved(x, out),
        _ => {}
    }
}

/// The serde data model of a TIR value, as a CBOR value (maps with any key type).
pub fn generic_value<T: serde::Serialize>(t: &T) -> ciborium::Value {
    ciborium::Value::serialized(t).expect("tir serialises")
}

pub fn unresolved_of(tx: &tir::Tx) -> Vec<Unresolved> {
    let v = generic_value(tx);
    let mut out = vec![];
    walk_unresolved(&v, &mut out);
    out.sort();
    out.dedup();
    out
}

pub fn unresolved_json(u: &[Unresolved]) -> Value {
    Value::Array(
        u.iter()
            .map(|x| match x {
                Unresolved::Value(n) => json!(["value", n]),
                Unresolved::Input(n) => json!(["input", n]),
                Unresolved::Fees => json!(["fees"]),
            })
            .collect(),
    )
}

// ---------------------------------------------------------------------------
// small constructors used by the generators

pub fn param(name: &str, ty: Type) -> E {
    E::EvalParam(Box::new(tir::Param::ExpectValue(name.to_string(), ty)))
}

pub fn fees_param() -> E {
    E::EvalParam(Box::new(tir::Param::ExpectFees))
}

pub fn input_param(name: &str, q: tir::InputQuery) -> E {
    E::EvalParam(Box::new(tir::Param::ExpectInput(name.to_string(), q)))
}

pub fn ada(n: i128) -> E {
    E::Assets(vec![tir::AssetExpr {
        policy: E::None,
        asset_name: E::None,
        amount: E::Number(n),
    }])
}

pub fn empty_tx() -> tir::Tx {
    tir::Tx {
        fees: E::None,
        references: vec![],
        inputs: vec![],
        outputs: vec![],
        validity: None,
        mints: vec![],
        burns: vec![],
        adhoc: vec![],
        collateral: vec![],
        signers: None,
        metadata: vec![],
    }
}

pub fn mk_utxo(txid_byte: u8, index: u32, address: &[u8], assets: CanonicalAssets, datum: Option<E>) -> Utxo {
    Utxo {
        r#ref: UtxoRef {
            txid: vec![txid_byte; 32],
            index,
        },
        address: address.to_vec(),
        assets,
        datum,
        script: None,
    }
}

pub fn adhoc(name: &str, fields: Vec<(&str, E)>) -> tir::AdHocDirective {
    tir::AdHocDirective {
        name: name.to_string(),
        data: fields
            .into_iter()
            .map(|(k, v)| (k.to_string(), v))
            .collect::<HashMap<_, _>>(),
    }
}
