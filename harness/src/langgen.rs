//! The generator's own syntax tree for the language's core fragment (C01, C13), its printer with
//! layout choices, and its JSON form (what the Lean side reads: the *tree*, never the text).

use crate::common::Rng;
use serde_json::{json, Value};

#[derive(Clone, Debug, PartialEq)]
pub enum Ty {
    Int,
    Bool,
    Bytes,
    Address,
    UtxoRef,
    AnyAsset,
    List(Box<Ty>),
    Custom(String),
}

#[derive(Clone, Debug)]
pub enum E {
    Num(i64),
    Bool(bool),
    Str(String),
    Hex(String),
    Unit,
    Id(String),
    Add(Box<E>, Box<E>),
    Sub(Box<E>, Box<E>),
    Neg(Box<E>),
    Concat(Box<E>, Box<E>),
    Prop(Box<E>, String),
    Index(Box<E>, Box<E>),
    List(Vec<E>),
    Map(Vec<(E, E)>),
    Record { ty: String, case: Option<String>, fields: Vec<(String, E)>, spread: Option<Box<E>> },
    AnyAsset(Box<E>, Box<E>, Box<E>),
    Call(String, Vec<E>),
    UtxoRef(String, u64),
}

#[derive(Clone, Debug)]
pub struct CaseDef {
    pub name: String,
    pub fields: Vec<(String, Ty)>,
}

#[derive(Clone, Debug)]
pub struct TypeDef {
    pub name: String,
    pub record: bool,
    pub cases: Vec<CaseDef>,
}

#[derive(Clone, Debug, Default)]
pub struct InputBlock {
    pub name: String,
    pub many: bool,
    pub from: Option<E>,
    pub min_amount: Option<E>,
    pub r#ref: Option<E>,
    pub redeemer: Option<E>,
    pub datum_is: Option<Ty>,
}

#[derive(Clone, Debug, Default)]
pub struct OutputBlock {
    pub name: Option<String>,
    pub optional: bool,
    pub to: Option<E>,
    pub amount: Option<E>,
    pub datum: Option<E>,
}

#[derive(Clone, Debug, Default)]
pub struct MintBlock {
    pub amount: Option<E>,
    pub redeemer: Option<E>,
}

#[derive(Clone, Debug, Default)]
pub struct TxDef {
    pub name: String,
    pub params: Vec<(String, Ty)>,
    pub locals: Vec<(String, E)>,
    pub inputs: Vec<InputBlock>,
    pub references: Vec<(String, E)>,
    pub collateral: Option<InputBlock>,
    pub outputs: Vec<OutputBlock>,
    pub mints: Vec<MintBlock>,
    pub burns: Vec<MintBlock>,
    pub validity: Option<(Option<E>, Option<E>)>,
    pub signers: Option<Vec<E>>,
    pub metadata: Option<Vec<(E, E)>>,
    /// chain-specific directives as (block name, fields)
    pub adhoc: Vec<(String, Vec<(String, E)>)>,
    /// order in which the body blocks are printed (indices into a canonical list)
    pub order: Vec<usize>,
}

#[derive(Clone, Debug, Default)]
pub struct Program {
    pub env: Vec<(String, Ty)>,
    pub parties: Vec<String>,
    pub policies: Vec<(String, String)>,
    pub assets: Vec<(String, E, E)>,
    pub types: Vec<TypeDef>,
    pub aliases: Vec<(String, Ty)>,
    pub txs: Vec<TxDef>,
}

// ---------------------------------------------------------------- JSON

pub fn ty_json(t: &Ty) -> Value {
    match t {
        Ty::Int => json!({"k": "int"}),
        Ty::Bool => json!({"k": "bool"}),
        Ty::Bytes => json!({"k": "bytes"}),
        Ty::Address => json!({"k": "address"}),
        Ty::UtxoRef => json!({"k": "utxoRef"}),
        Ty::AnyAsset => json!({"k": "anyAsset"}),
        Ty::List(x) => json!({"k": "list", "e": ty_json(x)}),
        Ty::Custom(n) => json!({"k": "custom", "n": n}),
    }
}

pub fn e_json(e: &E) -> Value {
    let b = |x: &E| e_json(x);
    match e {
        E::Num(n) => json!({"k": "num", "v": n.to_string()}),
        E::Bool(v) => json!({"k": "bool", "v": v}),
        E::Str(s) => json!({"k": "str", "v": s}),
        E::Hex(s) => json!({"k": "hex", "v": s}),
        E::Unit => json!({"k": "unit"}),
        E::Id(n) => json!({"k": "id", "n": n}),
        E::Add(x, y) => json!({"k": "add", "c": [b(x), b(y)]}),
        E::Sub(x, y) => json!({"k": "sub", "c": [b(x), b(y)]}),
        E::Neg(x) => json!({"k": "neg", "c": [b(x)]}),
        E::Concat(x, y) => json!({"k": "concat", "c": [b(x), b(y)]}),
        E::Prop(x, p) => json!({"k": "prop", "p": p, "c": [b(x)]}),
        E::Index(x, i) => json!({"k": "index", "c": [b(x), b(i)]}),
        E::List(xs) => json!({"k": "list", "c": xs.iter().map(e_json).collect::<Vec<_>>()}),
        E::Map(kvs) => json!({"k": "map", "c": kvs.iter().flat_map(|(k, v)| [e_json(k), e_json(v)]).collect::<Vec<_>>()}),
        E::Record { ty, case, fields, spread } => {
            let mut cs: Vec<Value> = fields.iter().map(|(_, v)| e_json(v)).collect();
            if let Some(s) = spread {
                cs.push(e_json(s));
            }
            json!({"k": "record", "ty": ty, "case": case, "fields": fields.iter().map(|(n, _)| n.clone()).collect::<Vec<_>>(),
                   "spread": spread.is_some(), "c": cs})
        }
        E::AnyAsset(p, n, a) => json!({"k": "anyAsset", "c": [b(p), b(n), b(a)]}),
        E::Call(f, args) => json!({"k": "call", "f": f, "c": args.iter().map(e_json).collect::<Vec<_>>()}),
        E::UtxoRef(t, i) => json!({"k": "utxoRef", "txid": t, "index": i}),
    }
}

fn opt_e(e: &Option<E>) -> Value {
    e.as_ref().map(e_json).unwrap_or(Value::Null)
}

fn input_json(i: &InputBlock) -> Value {
    json!({"name": i.name, "many": i.many, "from": opt_e(&i.from), "min_amount": opt_e(&i.min_amount), "ref": opt_e(&i.r#ref),
           "redeemer": opt_e(&i.redeemer), "datum_is": i.datum_is.as_ref().map(ty_json).unwrap_or(Value::Null)})
}

pub fn tx_json(t: &TxDef) -> Value {
    json!({
        "name": t.name,
        "params": t.params.iter().map(|(n, ty)| json!({"name": n, "ty": ty_json(ty)})).collect::<Vec<_>>(),
        "locals": t.locals.iter().map(|(n, e)| json!({"name": n, "e": e_json(e)})).collect::<Vec<_>>(),
        "inputs": t.inputs.iter().map(input_json).collect::<Vec<_>>(),
        "references": t.references.iter().map(|(n, e)| json!({"name": n, "ref": e_json(e)})).collect::<Vec<_>>(),
        "collateral": t.collateral.as_ref().map(input_json).unwrap_or(Value::Null),
        "outputs": t.outputs.iter().map(|o| json!({"name": o.name, "optional": o.optional, "to": opt_e(&o.to), "amount": opt_e(&o.amount), "datum": opt_e(&o.datum)})).collect::<Vec<_>>(),
        "mints": t.mints.iter().map(|m| json!({"amount": opt_e(&m.amount), "redeemer": opt_e(&m.redeemer)})).collect::<Vec<_>>(),
        "burns": t.burns.iter().map(|m| json!({"amount": opt_e(&m.amount), "redeemer": opt_e(&m.redeemer)})).collect::<Vec<_>>(),
        "validity": t.validity.as_ref().map(|(s, u)| json!({"since": opt_e(s), "until": opt_e(u)})).unwrap_or(Value::Null),
        "signers": t.signers.as_ref().map(|s| json!(s.iter().map(e_json).collect::<Vec<_>>())).unwrap_or(Value::Null),
        "metadata": t.metadata.as_ref().map(|m| json!(m.iter().map(|(k, v)| json!({"key": e_json(k), "value": e_json(v)})).collect::<Vec<_>>())).unwrap_or(Value::Null),
        "adhoc": t.adhoc.iter().map(|(n, fs)| json!({"name": n, "fields": fs.iter().map(|(k, v)| json!({"name": k, "e": e_json(v)})).collect::<Vec<_>>()})).collect::<Vec<_>>(),
    })
}

pub fn program_json(p: &Program) -> Value {
    json!({
        "env": p.env.iter().map(|(n, t)| json!({"name": n, "ty": ty_json(t)})).collect::<Vec<_>>(),
        "parties": p.parties,
        "policies": p.policies.iter().map(|(n, h)| json!({"name": n, "hash": h})).collect::<Vec<_>>(),
        "assets": p.assets.iter().map(|(n, pol, an)| json!({"name": n, "policy": e_json(pol), "asset_name": e_json(an)})).collect::<Vec<_>>(),
        "types": p.types.iter().map(|t| json!({"name": t.name, "record": t.record, "cases": t.cases.iter().map(|c| json!({"name": c.name,
            "fields": c.fields.iter().map(|(n, ty)| json!({"name": n, "ty": ty_json(ty)})).collect::<Vec<_>>()})).collect::<Vec<_>>()})).collect::<Vec<_>>(),
        "aliases": p.aliases.iter().map(|(n, t)| json!({"name": n, "ty": ty_json(t)})).collect::<Vec<_>>(),
        "txs": p.txs.iter().map(tx_json).collect::<Vec<_>>(),
    })
}

// ---------------------------------------------------------------- printer

/// Layout choices: all insignificant.
pub struct Layout {
    pub r: Rng,
    pub plain: bool,
}

impl Layout {
    pub fn plain() -> Self {
        Layout { r: Rng::new(0), plain: true }
    }
    pub fn random(seed: u64) -> Self {
        Layout { r: Rng::new(seed), plain: false }
    }
    /// separator between tokens
    fn s(&mut self) -> String {
        if self.plain {
            return " ".into();
        }
        match self.r.below(14) {
            0..=7 => " ".into(),
            8 => "  ".into(),
            9 => "\n".into(),
            10 => "\t".into(),
            11 => " // c ✓\n".into(),
            12 => " /* é */ ".into(),
            _ => "\r\n  ".into(),
        }
    }
    /// optional separator (may be empty)
    fn o(&mut self) -> String {
        if self.plain {
            return "".into();
        }
        match self.r.below(6) {
            0..=2 => "".into(),
            3 => " ".into(),
            4 => "\n".into(),
            _ => "/**/".into(),
        }
    }
    fn nl(&mut self) -> String {
        if self.plain {
            "\n".into()
        } else {
            match self.r.below(4) {
                0 => "\n".into(),
                1 => "\n\n".into(),
                2 => " ".into(),
                _ => "\n// 😀 note\n".into(),
            }
        }
    }
    fn redundant_parens(&mut self) -> bool {
        false
    }
}

pub fn print_ty(t: &Ty) -> String {
    match t {
        Ty::Int => "Int".into(),
        Ty::Bool => "Bool".into(),
        Ty::Bytes => "Bytes".into(),
        Ty::Address => "Address".into(),
        Ty::UtxoRef => "UtxoRef".into(),
        Ty::AnyAsset => "AnyAsset".into(),
        Ty::List(x) => format!("List<{}>", print_ty(x)),
        Ty::Custom(n) => n.clone(),
    }
}

fn is_binary(e: &E) -> bool {
    matches!(e, E::Add(_, _) | E::Sub(_, _))
}

pub fn print_e(l: &mut Layout, e: &E) -> String {
    let inner = print_e_inner(l, e);
    if l.redundant_parens() && !matches!(e, E::Unit) {
        format!("({}{}{})", l.o(), inner, l.o())
    } else {
        inner
    }
}

fn atom(l: &mut Layout, e: &E) -> String {
    // operand of a prefix/postfix operator or right operand of a binary one
    if is_binary(e) || matches!(e, E::Neg(_)) {
        format!("({}{}{})", l.o(), print_e_inner(l, e), l.o())
    } else {
        print_e(l, e)
    }
}

fn print_e_inner(l: &mut Layout, e: &E) -> String {
    match e {
        E::Num(n) => n.to_string(),
        E::Bool(b) => b.to_string(),
        E::Str(s) => format!("\"{s}\""),
        E::Hex(h) => format!("0x{h}"),
        E::Unit => "()".into(),
        E::Id(n) => n.clone(),
        E::Add(a, b) | E::Sub(a, b) => {
            let op = if matches!(e, E::Add(_, _)) { "+" } else { "-" };
            // left-associative: the left operand needs no parentheses, the right one does when binary
            // `!` binds tighter than `+`/`-`: a negated operand needs no parentheses on either side; the plain
            // layout always writes them, the random one half of the time
            let bare = !l.plain && l.r.below(2) == 0;
            let left = if matches!(**a, E::Neg(_)) && !bare { atom(l, a) } else { print_e(l, a) };
            let right = if matches!(**b, E::Neg(_)) && bare { print_e(l, b) } else { atom(l, b) };
            // a space before a negative literal keeps `a - -1` from reading as something else
            format!("{left}{}{op}{}{right}", l.s(), l.s())
        }
        E::Neg(x) => format!("!{}{}", l.o(), atom_postfix(l, x)),
        E::Concat(a, b) => format!("concat{}({}{}{},{}{}{})", l.o(), l.o(), print_e(l, a), l.o(), l.s(), print_e(l, b), l.o()),
        E::Prop(x, p) => format!("{}{}.{}{}", atom_postfix(l, x), l.o(), l.o(), p),
        E::Index(x, i) => format!("{}{}[{}{}{}]", atom_postfix(l, x), l.o(), l.o(), print_e(l, i), l.o()),
        E::List(xs) => {
            let mut s = format!("[{}", l.o());
            for (k, x) in xs.iter().enumerate() {
                s.push_str(&print_e(l, x));
                if k + 1 < xs.len() {
                    s.push_str(&format!("{},{}", l.o(), l.s()));
                }
            }
            s.push(']');
            s
        }
        E::Map(kvs) => {
            let mut s = format!("{{{}", l.o());
            for (k, v) in kvs {
                s.push_str(&format!("{}{}:{}{}{},{}", print_e(l, k), l.o(), l.s(), print_e(l, v), l.o(), l.s()));
            }
            s.push('}');
            s
        }
        E::Record { ty, case, fields, spread } => {
            let mut s = ty.clone();
            if let Some(c) = case {
                s.push_str(&format!("{}::{}{}", l.o(), l.o(), c));
            }
            s.push_str(&format!("{}{{{}", l.s(), l.s()));
            for (n, v) in fields {
                s.push_str(&format!("{n}{}:{}{}{},{}", l.o(), l.s(), print_e(l, v), l.o(), l.s()));
            }
            if let Some(sp) = spread {
                s.push_str(&format!("...{}{}{}", l.o(), print_e(l, sp), l.s()));
            }
            s.push('}');
            s
        }
        E::AnyAsset(p, n, a) => format!(
            "AnyAsset{}({}{}{},{}{}{},{}{}{})",
            l.o(), l.o(), print_e(l, p), l.o(), l.s(), print_e(l, n), l.o(), l.s(), print_e(l, a), l.o()
        ),
        E::Call(f, args) => {
            let mut s = format!("{f}{}({}", l.o(), l.o());
            for (k, a) in args.iter().enumerate() {
                if k > 0 {
                    s.push_str(&format!(",{}", l.s()));
                }
                s.push_str(&print_e(l, a));
                s.push_str(&l.o());
            }
            s.push(')');
            s
        }
        E::UtxoRef(t, i) => format!("0x{t}#{i}"),
    }
}

fn atom_postfix(l: &mut Layout, e: &E) -> String {
    // operand of `.p`, `[i]` or `!`: anything that is not a primary gets parentheses
    match e {
        E::Add(_, _) | E::Sub(_, _) | E::Neg(_) => format!("({}{}{})", l.o(), print_e_inner(l, e), l.o()),
        E::Num(n) if *n < 0 => format!("({n})"),
        _ => print_e_inner(l, e),
    }
}

fn field(l: &mut Layout, name: &str, e: &E) -> String {
    format!("{}{name}{}:{}{}{},{}", l.s(), l.o(), l.s(), print_e(l, e), l.o(), l.nl())
}

fn print_input(l: &mut Layout, kw: &str, i: &InputBlock, named: bool) -> String {
    let mut s = kw.to_string();
    if i.many {
        s.push_str(&format!("{}*", l.o()));
    }
    if named {
        s.push_str(&format!("{}{}", l.s(), i.name));
    }
    s.push_str(&format!("{}{{{}", l.s(), l.nl()));
    // field order is a layout choice too
    let mut fs: Vec<String> = vec![];
    if let Some(e) = &i.from {
        fs.push(field(l, "from", e));
    }
    if let Some(t) = &i.datum_is {
        fs.push(format!("{}datum_is{}:{}{},{}", l.s(), l.o(), l.s(), print_ty(t), l.nl()));
    }
    if let Some(e) = &i.min_amount {
        fs.push(field(l, "min_amount", e));
    }
    if let Some(e) = &i.r#ref {
        fs.push(field(l, "ref", e));
    }
    if let Some(e) = &i.redeemer {
        fs.push(field(l, "redeemer", e));
    }
    s.push_str(&fs.concat());
    s.push_str(&format!("}}{}", l.nl()));
    s
}

pub fn print_tx(l: &mut Layout, t: &TxDef) -> String {
    let mut s = format!("tx{}{}{}({}", l.s(), t.name, l.o(), l.o());
    for (k, (n, ty)) in t.params.iter().enumerate() {
        if k > 0 {
            s.push_str(&format!(",{}", l.s()));
        }
        s.push_str(&format!("{n}{}:{}{}", l.o(), l.s(), print_ty(ty)));
    }
    s.push_str(&format!("{}){}{{{}", l.o(), l.s(), l.nl()));

    let mut blocks: Vec<String> = vec![];
    if !t.locals.is_empty() {
        let mut b = format!("locals{}{{{}", l.s(), l.nl());
        for (n, e) in &t.locals {
            b.push_str(&field(l, n, e));
        }
        b.push_str(&format!("}}{}", l.nl()));
        blocks.push(b);
    }
    for i in &t.inputs {
        blocks.push(print_input(l, "input", i, true));
    }
    for (n, e) in &t.references {
        blocks.push(format!("reference{}{n}{}{{{}{}}}{}", l.s(), l.s(), l.o(), field(l, "ref", e), l.nl()));
    }
    if let Some(c) = &t.collateral {
        blocks.push(print_input(l, "collateral", c, false));
    }
    // outputs keep their relative order (it is significant); everything else may move around them
    let mut outs: Vec<String> = vec![];
    for o in &t.outputs {
        let mut b = "output".to_string();
        if o.optional {
            b.push_str(&format!("{}?", l.o()));
        }
        if let Some(n) = &o.name {
            b.push_str(&format!("{}{n}", l.s()));
        }
        b.push_str(&format!("{}{{{}", l.s(), l.nl()));
        let mut fs = vec![];
        if let Some(e) = &o.to {
            fs.push(field(l, "to", e));
        }
        if let Some(e) = &o.amount {
            fs.push(field(l, "amount", e));
        }
        if let Some(e) = &o.datum {
            fs.push(field(l, "datum", e));
        }
        b.push_str(&fs.concat());
        b.push_str(&format!("}}{}", l.nl()));
        outs.push(b);
    }
    let mut others: Vec<String> = vec![];
    for (kw, ms) in [("mint", &t.mints), ("burn", &t.burns)] {
        for m in ms.iter() {
            let mut b = format!("{kw}{}{{{}", l.s(), l.nl());
            if let Some(e) = &m.amount {
                b.push_str(&field(l, "amount", e));
            }
            if let Some(e) = &m.redeemer {
                b.push_str(&field(l, "redeemer", e));
            }
            b.push_str(&format!("}}{}", l.nl()));
            others.push(b);
        }
    }
    if let Some((since, until)) = &t.validity {
        let mut b = format!("validity{}{{{}", l.s(), l.nl());
        if let Some(e) = since {
            b.push_str(&field(l, "since_slot", e));
        }
        if let Some(e) = until {
            b.push_str(&field(l, "until_slot", e));
        }
        b.push_str(&format!("}}{}", l.nl()));
        others.push(b);
    }
    if let Some(sg) = &t.signers {
        let mut b = format!("signers{}{{{}", l.s(), l.nl());
        for e in sg {
            b.push_str(&format!("{}{}{},{}", l.s(), print_e(l, e), l.o(), l.nl()));
        }
        b.push_str(&format!("}}{}", l.nl()));
        others.push(b);
    }
    if let Some(md) = &t.metadata {
        let mut b = format!("metadata{}{{{}", l.s(), l.nl());
        for (k, v) in md {
            b.push_str(&format!("{}{}{}:{}{}{},{}", l.s(), print_e(l, k), l.o(), l.s(), print_e(l, v), l.o(), l.nl()));
        }
        b.push_str(&format!("}}{}", l.nl()));
        others.push(b);
    }
    for (name, fs) in &t.adhoc {
        let mut b = format!("cardano{}::{}{name}{}{{{}", l.o(), l.o(), l.s(), l.nl());
        for (k, v) in fs {
            b.push_str(&field(l, k, v));
        }
        b.push_str(&format!("}}{}", l.nl()));
        others.push(b);
    }
    // interleave: blocks (locals/inputs/refs/collateral) and others around the outputs
    let mut all: Vec<String> = vec![];
    all.extend(blocks);
    all.extend(others);
    all.extend(outs);
    for b in all {
        s.push_str(&l.s());
        s.push_str(&b);
    }
    s.push_str(&format!("}}{}", l.nl()));
    s
}

pub fn print_program(l: &mut Layout, p: &Program) -> String {
    let mut defs: Vec<String> = vec![];
    if !p.env.is_empty() {
        let mut b = format!("env{}{{{}", l.s(), l.nl());
        for (n, t) in &p.env {
            b.push_str(&format!("{}{n}{}:{}{},{}", l.s(), l.o(), l.s(), print_ty(t), l.nl()));
        }
        b.push_str(&format!("}}{}", l.nl()));
        defs.push(b);
    }
    for n in &p.parties {
        defs.push(format!("party{}{n}{};{}", l.s(), l.o(), l.nl()));
    }
    for (n, h) in &p.policies {
        defs.push(format!("policy{}{n}{}={}0x{h}{};{}", l.s(), l.s(), l.s(), l.o(), l.nl()));
    }
    for (n, pol, an) in &p.assets {
        defs.push(format!("asset{}{n}{}={}{}{}.{}{}{};{}", l.s(), l.s(), l.s(), print_e_inner(l, pol), l.o(), l.o(), print_e_inner(l, an), l.o(), l.nl()));
    }
    for t in &p.types {
        let mut b = format!("type{}{}{}{{{}", l.s(), t.name, l.s(), l.nl());
        if t.record {
            for (n, ty) in &t.cases[0].fields {
                b.push_str(&format!("{}{n}{}:{}{},{}", l.s(), l.o(), l.s(), print_ty(ty), l.nl()));
            }
        } else {
            for c in &t.cases {
                b.push_str(&format!("{}{}", l.s(), c.name));
                if !c.fields.is_empty() {
                    b.push_str(&format!("{}{{{}", l.s(), l.o()));
                    for (n, ty) in &c.fields {
                        b.push_str(&format!("{}{n}{}:{}{},{}", l.s(), l.o(), l.s(), print_ty(ty), l.o()));
                    }
                    b.push('}');
                }
                b.push_str(&format!("{},{}", l.o(), l.nl()));
            }
        }
        b.push_str(&format!("}}{}", l.nl()));
        defs.push(b);
    }
    for (n, t) in &p.aliases {
        defs.push(format!("type{}{n}{}={}{}{};{}", l.s(), l.s(), l.s(), print_ty(t), l.o(), l.nl()));
    }
    for t in &p.txs {
        defs.push(print_tx(l, t));
    }
    let mut s = if l.plain { String::new() } else { l.o() };
    for d in defs {
        s.push_str(&d);
    }
    s
}
