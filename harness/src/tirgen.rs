//! Type-directed random TIR generator (mostly-valid stream) with a malformed
//! tail.  Every expression position may hold a parameter, an input, `fees` or
//! a compiler op.

use crate::common::*;
use crate::tirjson::*;
use std::collections::{BTreeMap, HashSet};
use tx3_tir::model::assets::CanonicalAssets;
use tx3_tir::model::core::{Type, Utxo, UtxoRef};
use tx3_tir::model::v1beta0 as tir;
use tx3_tir::model::v1beta0::Expression as E;
use tx3_tir::reduce::ArgValue;

#[derive(Clone, Copy, PartialEq, Debug)]
pub enum Want {
    Int,
    Assets,
    Bytes,
    Str,
    List,
    Map,
    Datum,
    Address,
    Refs,
    Bool,
    Any,
}

pub struct Gen {
    pub r: Rng,
    /// probability (in 1/16) that a position holds a parameter-like node
    pub param_rate: u64,
    /// allow compiler ops
    pub compiler_ops: bool,
    /// allow ill-typed sub-expressions
    pub malformed: bool,
    /// allow input parameters nested in expressions (besides input blocks)
    pub nested_inputs: bool,
    pub n_params: usize,
    pub n_inputs: usize,
    pub boundary_ints: bool,
}

pub const ADDR_A: [u8; 29] = [
    0x60, 0xa1, 0xa1, 0xa1, 0xa1, 0xa1, 0xa1, 0xa1, 0xa1, 0xa1, 0xa1, 0xa1, 0xa1, 0xa1, 0xa1, 0xa1,
    0xa1, 0xa1, 0xa1, 0xa1, 0xa1, 0xa1, 0xa1, 0xa1, 0xa1, 0xa1, 0xa1, 0xa1, 0xa1,
];
pub const ADDR_B: [u8; 29] = [
    0x60, 0xb2, 0xb2, 0xb2, 0xb2, 0xb2, 0xb2, 0xb2, 0xb2, 0xb2, 0xb2, 0xb2, 0xb2, 0xb2, 0xb2, 0xb2,
    0xb2, 0xb2, 0xb2, 0xb2, 0xb2, 0xb2, 0xb2, 0xb2, 0xb2, 0xb2, 0xb2, 0xb2, 0xb2,
];
pub const POLICY1: [u8; 28] = [0x11; 28];
pub const POLICY2: [u8; 28] = [0x22; 28];

impl Gen {
    pub fn new(r: Rng) -> Self {
        Gen {
            r,
            param_rate: 4,
            compiler_ops: true,
            malformed: false,
            nested_inputs: true,
            n_params: 0,
            n_inputs: 0,
            boundary_ints: false,
        }
    }

    fn pname(&mut self, ty: &Type) -> String {
        // a small pool of names per type so that the same parameter recurs
        let k = self.r.below(3);
        self.n_params += 1;
        match ty {
            Type::Int => format!("i{k}"),
            Type::Bool => format!("flag{k}"),
            Type::Bytes => format!("b{k}"),
            Type::Address => format!("addr{k}"),
            Type::UtxoRef => format!("ref{k}"),
            _ => format!("p{k}"),
        }
    }

    fn want_param(&mut self) -> bool {
        self.r.below(16) < self.param_rate
    }

    pub fn int_lit(&mut self) -> i128 {
        if self.boundary_ints {
            boundary_i128(&mut self.r)
        } else {
            match self.r.below(4) {
                0 => self.r.range(0, 3) as i128,
                1 => self.r.range(-3, 10) as i128,
                _ => self.r.range(0, 5_000_000) as i128,
            }
        }
    }

    pub fn query(&mut self, depth: u32, collateral: bool) -> tir::InputQuery {
        tir::InputQuery {
            address: if self.r.chance(3, 4) {
                self.expr(depth.saturating_sub(1).min(1), Want::Address)
            } else {
                E::None
            },
            min_amount: if self.r.chance(3, 4) {
                self.expr(depth.saturating_sub(1).min(2), Want::Assets)
            } else {
                E::None
            },
            r#ref: if self.r.chance(1, 4) {
                self.expr(0, Want::Refs)
            } else {
                E::None
            },
            many: self.r.chance(1, 3),
            collateral,
        }
    }

    pub fn input_expr(&mut self, depth: u32) -> E {
        let k = self.r.below(3);
        self.n_inputs += 1;
        let q = self.query(depth, false);
        input_param(&format!("in{k}"), q)
    }

    pub fn expr(&mut self, depth: u32, want: Want) -> E {
        if self.malformed && self.r.chance(1, 24) {
            // ill-typed: something of another kind in this position
            let other = *self.r.pick(&[
                Want::Int,
                Want::Assets,
                Want::Bytes,
                Want::Str,
                Want::List,
                Want::Map,
                Want::Datum,
                Want::Address,
                Want::Refs,
                Want::Bool,
            ]);
            return self.expr(depth, other);
        }
        // wrappers that any position may carry
        if depth > 0 && self.r.chance(1, 12) {
            let inner = self.expr(depth - 1, want);
            if self.malformed && self.r.chance(1, 6) {
                return E::EvalCoerce(Box::new(tir::Coerce::IntoScript(inner)));
            }
            return match self.r.below(3) {
                0 => E::EvalBuiltIn(Box::new(tir::BuiltInOp::NoOp(inner))),
                1 => E::EvalCoerce(Box::new(tir::Coerce::NoOp(inner))),
                _ => {
                    // property access into a container holding the value
                    let ix = self.r.below(2) as i128;
                    let filler = self.expr(0, want);
                    let items = if ix == 0 {
                        vec![inner, filler]
                    } else {
                        vec![filler, inner]
                    };
                    let container = if self.r.chance(1, 2) {
                        E::List(items)
                    } else {
                        E::Struct(tir::StructExpr {
                            constructor: self.r.below(3) as usize,
                            fields: items,
                        })
                    };
                    let index = if self.want_param() {
                        // the index itself is a parameter (xs[i])
                        param("ix", Type::Int)
                    } else {
                        E::Number(ix)
                    };
                    E::EvalBuiltIn(Box::new(tir::BuiltInOp::Property(container, index)))
                }
            };
        }
        match want {
            Want::Int => self.int_expr(depth),
            Want::Assets => self.assets_expr(depth),
            Want::Bytes => self.bytes_expr(depth),
            Want::Str => self.str_expr(depth),
            Want::List => self.list_expr(depth),
            Want::Map => self.map_expr(depth),
            Want::Datum => self.datum_expr(depth),
            Want::Address => self.address_expr(depth),
            Want::Refs => self.refs_expr(),
            Want::Bool => {
                if self.want_param() {
                    let n = self.pname(&Type::Bool);
                    param(&n, Type::Bool)
                } else {
                    E::Bool(self.r.chance(1, 2))
                }
            }
            Want::Any => {
                let w = *self.r.pick(&[
                    Want::Int,
                    Want::Assets,
                    Want::Bytes,
                    Want::Str,
                    Want::List,
                    Want::Map,
                    Want::Datum,
                    Want::Address,
                    Want::Bool,
                ]);
                self.expr(depth, w)
            }
        }
    }

    fn int_expr(&mut self, depth: u32) -> E {
        if self.want_param() {
            let n = self.pname(&Type::Int);
            return param(&n, Type::Int);
        }
        if depth == 0 {
            return E::Number(self.int_lit());
        }
        match self.r.below(12) {
            0 | 1 => E::EvalBuiltIn(Box::new(tir::BuiltInOp::Add(
                self.int_expr(depth - 1),
                self.int_expr(depth - 1),
            ))),
            2 | 3 => E::EvalBuiltIn(Box::new(tir::BuiltInOp::Sub(
                self.int_expr(depth - 1),
                self.int_expr(depth - 1),
            ))),
            4 => E::EvalBuiltIn(Box::new(tir::BuiltInOp::Negate(self.int_expr(depth - 1)))),
            5 if self.compiler_ops => match self.r.below(3) {
                0 => E::EvalCompiler(Box::new(tir::CompilerOp::ComputeTipSlot)),
                1 => E::EvalCompiler(Box::new(tir::CompilerOp::ComputeSlotToTime(
                    self.nonneg_int(depth - 1),
                ))),
                _ => E::EvalCompiler(Box::new(tir::CompilerOp::ComputeTimeToSlot(
                    self.nonneg_int(depth - 1),
                ))),
            },
            6 => E::EvalParam(Box::new(tir::Param::Set(E::Number(self.int_lit())))),
            7 => {
                // index into a map: yields a tuple, take its second component
                let key = E::Number(self.r.range(0, 2) as i128);
                let m = E::Map(vec![
                    (E::Number(0), self.int_expr(depth - 1)),
                    (E::Number(1), E::Number(self.int_lit())),
                    (E::Number(2), E::Number(7)),
                ]);
                let tup = E::EvalBuiltIn(Box::new(tir::BuiltInOp::Property(m, key)));
                E::EvalBuiltIn(Box::new(tir::BuiltInOp::Property(tup, E::Number(1))))
            }
            _ => E::Number(self.int_lit()),
        }
    }

    fn nonneg_int(&mut self, depth: u32) -> E {
        if self.want_param() {
            let n = self.pname(&Type::Int);
            return param(&n, Type::Int);
        }
        if depth > 0 && self.r.chance(1, 3) {
            return E::EvalBuiltIn(Box::new(tir::BuiltInOp::Add(
                self.nonneg_int(depth - 1),
                E::Number(self.r.range(0, 100) as i128),
            )));
        }
        if self.boundary_ints {
            return E::Number(boundary_i128(&mut self.r));
        }
        E::Number(self.r.range(0, 2_000_000_000) as i128)
    }

    fn asset_entry(&mut self, depth: u32) -> tir::AssetExpr {
        let amount = self.expr(depth.min(2), Want::Int);
        match self.r.below(4) {
            0 | 1 => tir::AssetExpr {
                policy: E::None,
                asset_name: E::None,
                amount,
            },
            2 => tir::AssetExpr {
                policy: E::Bytes(POLICY1.to_vec()),
                asset_name: if self.r.chance(1, 2) {
                    E::Bytes(b"TK1".to_vec())
                } else {
                    E::String("TK1".to_string())
                },
                amount,
            },
            _ => tir::AssetExpr {
                policy: if self.want_param() {
                    let n = self.pname(&Type::Bytes);
                    param(&n, Type::Bytes)
                } else {
                    E::Bytes(POLICY2.to_vec())
                },
                asset_name: E::Bytes(b"B".to_vec()),
                amount,
            },
        }
    }

    fn assets_expr(&mut self, depth: u32) -> E {
        if depth == 0 {
            let k = 1 + self.r.below(2) as usize;
            return E::Assets((0..k).map(|_| self.asset_entry(0)).collect());
        }
        match self.r.below(12) {
            0 | 1 => E::EvalBuiltIn(Box::new(tir::BuiltInOp::Add(
                self.assets_expr(depth - 1),
                self.assets_expr(depth - 1),
            ))),
            2 | 3 => E::EvalBuiltIn(Box::new(tir::BuiltInOp::Sub(
                self.assets_expr(depth - 1),
                self.assets_expr(depth - 1),
            ))),
            4 => fees_param(),
            5 if self.nested_inputs => {
                E::EvalCoerce(Box::new(tir::Coerce::IntoAssets(self.input_expr(depth - 1))))
            }
            6 if self.compiler_ops => E::EvalCompiler(Box::new(tir::CompilerOp::ComputeMinUtxo(
                E::Number(self.r.below(3) as i128),
            ))),
            7 => E::EvalBuiltIn(Box::new(tir::BuiltInOp::Negate(self.assets_expr(depth - 1)))),
            8 => E::None,
            _ => {
                let k = 1 + self.r.below(3) as usize;
                E::Assets((0..k).map(|_| self.asset_entry(depth - 1)).collect())
            }
        }
    }

    fn bytes_expr(&mut self, depth: u32) -> E {
        if self.want_param() {
            let n = self.pname(&Type::Bytes);
            return param(&n, Type::Bytes);
        }
        if depth > 0 && self.r.chance(1, 3) {
            return E::EvalBuiltIn(Box::new(tir::BuiltInOp::Concat(
                self.bytes_expr(depth - 1),
                self.bytes_expr(depth - 1),
            )));
        }
        let l = *self.r.pick(&[0usize, 1, 3, 28, 32]);
        E::Bytes(self.r.bytes(l))
    }

    fn str_expr(&mut self, depth: u32) -> E {
        if depth > 0 && self.r.chance(1, 2) {
            let rhs = if self.r.chance(1, 2) {
                self.str_expr(depth - 1)
            } else {
                self.int_expr(depth - 1)
            };
            return E::EvalBuiltIn(Box::new(tir::BuiltInOp::Concat(
                self.str_expr(depth - 1),
                rhs,
            )));
        }
        E::String((*self.r.pick(&["", "a", "héllo", "tx3"])).to_string())
    }

    fn list_expr(&mut self, depth: u32) -> E {
        if depth > 0 && self.r.chance(1, 3) {
            return E::EvalBuiltIn(Box::new(tir::BuiltInOp::Concat(
                self.list_expr(depth - 1),
                self.list_expr(depth - 1),
            )));
        }
        let k = self.r.below(3) as usize;
        let w = *self.r.pick(&[Want::Int, Want::Bytes, Want::Datum]);
        E::List(
            (0..k)
                .map(|_| self.expr(depth.saturating_sub(1), w))
                .collect(),
        )
    }

    fn map_expr(&mut self, depth: u32) -> E {
        let k = self.r.below(3) as usize;
        E::Map(
            (0..k)
                .map(|i| {
                    (
                        E::Number(i as i128),
                        self.expr(depth.saturating_sub(1), Want::Int),
                    )
                })
                .collect(),
        )
    }

    fn datum_expr(&mut self, depth: u32) -> E {
        if depth == 0 {
            return match self.r.below(3) {
                0 => E::Number(self.int_lit()),
                1 => E::Bytes(self.r.bytes(2)),
                _ => E::Struct(tir::StructExpr {
                    constructor: self.r.below(3) as usize,
                    fields: vec![],
                }),
            };
        }
        match self.r.below(8) {
            0 if self.nested_inputs => {
                E::EvalCoerce(Box::new(tir::Coerce::IntoDatum(self.input_expr(depth - 1))))
            }
            1 => self.list_expr(depth - 1),
            2 => self.map_expr(depth - 1),
            3 => E::Tuple(Box::new((
                self.expr(depth - 1, Want::Int),
                self.expr(depth - 1, Want::Bytes),
            ))),
            4 => E::EvalCoerce(Box::new(tir::Coerce::IntoDatum(self.address_expr(0)))),
            _ => {
                let k = self.r.below(4) as usize;
                E::Struct(tir::StructExpr {
                    constructor: self.r.below(3) as usize,
                    fields: (0..k)
                        .map(|_| {
                            let w = *self.r.pick(&[
                                Want::Int,
                                Want::Bytes,
                                Want::Datum,
                                Want::Bool,
                                Want::List,
                            ]);
                            self.expr(depth - 1, w)
                        })
                        .collect(),
                })
            }
        }
    }

    fn address_expr(&mut self, depth: u32) -> E {
        if self.want_param() {
            let n = self.pname(&Type::Address);
            return param(&n, Type::Address);
        }
        match self.r.below(6) {
            0 if self.compiler_ops && depth > 0 => E::EvalCompiler(Box::new(
                tir::CompilerOp::BuildScriptAddress(E::Hash(POLICY1.to_vec())),
            )),
            1 => E::Hash(POLICY2.to_vec()),
            2 => E::Address(ADDR_B.to_vec()),
            _ => E::Address(ADDR_A.to_vec()),
        }
    }

    fn refs_expr(&mut self) -> E {
        if self.want_param() {
            let n = self.pname(&Type::UtxoRef);
            return param(&n, Type::UtxoRef);
        }
        let b = self.r.below(4) as u8;
        E::UtxoRefs(vec![UtxoRef {
            txid: vec![b; 32],
            index: self.r.below(2) as u32,
        }])
    }

    pub fn tx(&mut self, depth: u32) -> tir::Tx {
        let mut t = empty_tx();
        t.fees = if self.r.chance(7, 8) {
            fees_param()
        } else {
            self.assets_expr(0)
        };
        let n_in = self.r.below(3) as usize;
        for i in 0..n_in {
            let q = self.query(depth, false);
            t.inputs.push(tir::Input {
                name: format!("in{i}"),
                utxos: input_param(&format!("in{i}"), q),
                redeemer: if self.r.chance(1, 3) {
                    self.datum_expr(depth.min(2))
                } else {
                    E::None
                },
            });
        }
        let n_out = self.r.below(3) as usize;
        for _ in 0..n_out {
            t.outputs.push(tir::Output {
                address: self.address_expr(depth),
                datum: if self.r.chance(1, 2) {
                    self.datum_expr(depth)
                } else {
                    E::None
                },
                amount: self.assets_expr(depth),
                optional: self.r.chance(1, 6),
            });
        }
        if self.r.chance(1, 3) {
            t.validity = Some(tir::Validity {
                since: if self.r.chance(1, 2) {
                    self.nonneg_int(depth.min(2))
                } else {
                    E::None
                },
                until: if self.r.chance(1, 2) {
                    self.nonneg_int(depth.min(2))
                } else {
                    E::None
                },
            });
        }
        if self.r.chance(1, 4) {
            t.mints.push(tir::Mint {
                amount: self.assets_expr(depth.min(1)),
                redeemer: self.datum_expr(1),
            });
        }
        if self.r.chance(1, 6) {
            t.burns.push(tir::Mint {
                amount: self.assets_expr(depth.min(1)),
                redeemer: E::None,
            });
        }
        if self.r.chance(1, 4) {
            let mut fields = vec![("amount", self.int_expr(depth.min(2)))];
            if self.r.chance(1, 2) {
                fields.push(("credential", self.address_expr(1)));
            }
            if self.r.chance(1, 2) {
                fields.push(("redeemer", self.datum_expr(1)));
            }
            t.adhoc.push(adhoc("withdrawal", fields));
        }
        if self.r.chance(1, 6) {
            let q = self.query(1, true);
            t.collateral.push(tir::Collateral {
                utxos: input_param("collateral", q),
            });
        }
        if self.r.chance(1, 5) {
            let k = 1 + self.r.below(2) as usize;
            t.signers = Some(tir::Signers {
                signers: (0..k)
                    .map(|_| {
                        if self.r.chance(1, 2) {
                            self.address_expr(0)
                        } else {
                            self.bytes_expr(1)
                        }
                    })
                    .collect(),
            });
        }
        if self.r.chance(1, 5) {
            t.metadata.push(tir::Metadata {
                key: self.int_expr(1),
                value: match self.r.below(3) {
                    0 => self.int_expr(1),
                    1 => self.str_expr(1),
                    _ => self.bytes_expr(1),
                },
            });
        }
        if self.r.chance(1, 5) {
            t.references.push(self.refs_expr());
        }
        t
    }

    /// A value for a parameter of the given type.
    pub fn arg_for(&mut self, ty: &Type) -> Option<ArgValue> {
        Some(match ty {
            Type::Int => ArgValue::Int(self.int_lit()),
            Type::Bool => ArgValue::Bool(self.r.chance(1, 2)),
            Type::Bytes => ArgValue::Bytes(if self.r.chance(1, 2) {
                POLICY2.to_vec()
            } else {
                self.r.bytes(3)
            }),
            Type::Address => ArgValue::Address(if self.r.chance(1, 2) {
                ADDR_A.to_vec()
            } else {
                ADDR_B.to_vec()
            }),
            Type::UtxoRef => ArgValue::UtxoRef(UtxoRef {
                txid: vec![self.r.below(4) as u8; 32],
                index: 0,
            }),
            Type::Undefined
            | Type::Unit
            | Type::Utxo
            | Type::AnyAsset
            | Type::List
            | Type::Map
            | Type::Custom(_) => return None,
        })
    }

    pub fn utxo_set(&mut self, tag: u8) -> HashSet<Utxo> {
        // now and then an empty set (a client may supply one) and sets whose UTxOs carry no datum
        let k = if self.r.chance(1, 8) { 0 } else { 1 + self.r.below(2) as usize };
        let with_datum = !self.r.chance(1, 6);
        let mut out = HashSet::new();
        for i in 0..k {
            let mut assets = CanonicalAssets::from_naked_amount(self.r.range(1, 9_000_000) as i128);
            if self.r.chance(1, 3) {
                assets = assets
                    + CanonicalAssets::from_defined_asset(
                        &POLICY1,
                        b"TK1",
                        self.r.range(1, 50) as i128,
                    );
            }
            // with several UTxOs the datum taken by IntoDatum depends on hash order:
            // give every UTxO of a set the same datum so that the observation is defined
            let datum = if with_datum {
                Some(E::Struct(tir::StructExpr {
                    constructor: 0,
                    fields: vec![E::Number(tag as i128), E::Bytes(vec![tag])],
                }))
            } else {
                None
            };
            out.insert(mk_utxo(tag, i as u32, &ADDR_A, assets, datum));
        }
        out
    }
}

pub fn arg_expr_json(a: &ArgValue) -> serde_json::Value {
    // mirrors `arg_value_into_expr`, which is private
    match a {
        ArgValue::Int(x) => expr_json(&E::Number(*x)),
        ArgValue::Bool(x) => expr_json(&E::Bool(*x)),
        ArgValue::String(x) => expr_json(&E::String(x.clone())),
        ArgValue::Bytes(x) => expr_json(&E::Bytes(x.clone())),
        ArgValue::Address(x) => expr_json(&E::Address(x.clone())),
        ArgValue::UtxoSet(x) => expr_json(&E::UtxoSet(x.clone())),
        ArgValue::UtxoRef(x) => expr_json(&E::UtxoRefs(vec![x.clone()])),
    }
}

pub type Args = BTreeMap<String, ArgValue>;
pub type Inputs = BTreeMap<String, HashSet<Utxo>>;
