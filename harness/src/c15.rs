//! C15 — `CanonicalAssets` algebra: op trees over the whole public API,
//! canonical dumps *including zero entries*.

use crate::common::*;
use crate::Opts;
use serde_json::{json, Value};
use tx3_tir::model::assets::{AssetClass, CanonicalAssets};
use tx3_tir::model::v1beta0::AssetExpr;

#[derive(Clone, Debug)]
pub enum VExpr {
    Empty,
    Class(AssetClass, i128),
    Naked(i128),
    Named(Vec<u8>, i128),
    Defined(Vec<u8>, Vec<u8>, i128),
    Asset(Option<Vec<u8>>, Option<Vec<u8>>, i128),
    Add(Box<VExpr>, Box<VExpr>),
    Sub(Box<VExpr>, Box<VExpr>),
    Neg(Box<VExpr>),
}

pub fn class_json(c: &AssetClass) -> Value {
    match c {
        AssetClass::Naked => json!({"k": "naked"}),
        AssetClass::Named(n) => json!({"k": "named", "name": hx(n)}),
        AssetClass::Defined(p, n) => json!({"k": "defined", "policy": hx(p), "name": hx(n)}),
    }
}

fn opt_hex(x: &Option<Vec<u8>>) -> Value {
    match x {
        Some(b) => Value::String(hx(b)),
        None => Value::Null,
    }
}

impl VExpr {
    pub fn to_json(&self) -> Value {
        match self {
            VExpr::Empty => json!({"op": "empty"}),
            VExpr::Class(c, n) => json!({"op": "class", "class": class_json(c), "n": int(*n)}),
            VExpr::Naked(n) => json!({"op": "naked", "n": int(*n)}),
            VExpr::Named(nm, n) => json!({"op": "named", "name": hx(nm), "n": int(*n)}),
            VExpr::Defined(p, nm, n) => {
                json!({"op": "defined", "policy": hx(p), "name": hx(nm), "n": int(*n)})
            }
            VExpr::Asset(p, nm, n) => {
                json!({"op": "asset", "policy": opt_hex(p), "name": opt_hex(nm), "n": int(*n)})
            }
            VExpr::Add(x, y) => json!({"op": "add", "x": x.to_json(), "y": y.to_json()}),
            VExpr::Sub(x, y) => json!({"op": "sub", "x": x.to_json(), "y": y.to_json()}),
            VExpr::Neg(x) => json!({"op": "neg", "x": x.to_json()}),
        }
    }

    pub fn eval(&self) -> CanonicalAssets {
        match self {
            VExpr::Empty => CanonicalAssets::empty(),
            VExpr::Class(c, n) => CanonicalAssets::from_class_and_amount(c.clone(), *n),
            VExpr::Naked(n) => CanonicalAssets::from_naked_amount(*n),
            VExpr::Named(nm, n) => CanonicalAssets::from_named_asset(nm, *n),
            VExpr::Defined(p, nm, n) => CanonicalAssets::from_defined_asset(p, nm, *n),
            VExpr::Asset(p, nm, n) => {
                CanonicalAssets::from_asset(p.as_deref(), nm.as_deref(), *n)
            }
            VExpr::Add(x, y) => x.eval() + y.eval(),
            VExpr::Sub(x, y) => x.eval() - y.eval(),
            VExpr::Neg(x) => -x.eval(),
        }
    }
}

/// Canonical dump: entries sorted by class, zero entries kept.
pub fn dump(a: &CanonicalAssets) -> Value {
    let mut entries: Vec<(AssetClass, i128)> = a.iter().map(|(k, v)| (k.clone(), *v)).collect();
    entries.sort();
    Value::Array(
        entries
            .iter()
            .map(|(k, v)| json!([class_json(k), int(*v)]))
            .collect(),
    )
}

const P1: [u8; 2] = [0xaa, 0x01];
const P2: [u8; 3] = [0xbb, 0x02, 0x03];

fn classes3() -> [AssetClass; 3] {
    [
        AssetClass::Naked,
        AssetClass::Defined(P1.to_vec(), b"TK1".to_vec()),
        AssetClass::Defined(P2.to_vec(), vec![]),
    ]
}

/// One class with one amount through a randomly chosen constructor path.
fn single(r: &mut Rng, class: &AssetClass, n: i128) -> VExpr {
    match class {
        AssetClass::Naked => match r.below(6) {
            0 => VExpr::Naked(n),
            1 => VExpr::Named(vec![], n),
            2 => VExpr::Defined(vec![], vec![], n),
            3 => VExpr::Asset(None, None, n),
            4 => VExpr::Asset(Some(vec![]), None, n),
            _ => VExpr::Class(AssetClass::Naked, n),
        },
        AssetClass::Named(nm) => match r.below(4) {
            0 => VExpr::Named(nm.clone(), n),
            1 => VExpr::Defined(vec![], nm.clone(), n),
            2 => VExpr::Asset(None, Some(nm.clone()), n),
            _ => VExpr::Class(class.clone(), n),
        },
        AssetClass::Defined(p, nm) => match r.below(4) {
            0 => VExpr::Defined(p.clone(), nm.clone(), n),
            1 => VExpr::Asset(Some(p.clone()), Some(nm.clone()), n),
            2 if nm.is_empty() => VExpr::Asset(Some(p.clone()), None, n),
            _ => VExpr::Class(class.clone(), n),
        },
    }
}

/// A value with the given amounts per class, through a random construction path
/// (some paths keep zero entries, some drop them).
fn build(r: &mut Rng, classes: &[AssetClass], amounts: &[i128]) -> VExpr {
    let mut idx: Vec<usize> = (0..classes.len()).collect();
    // random order of accumulation
    for i in (1..idx.len()).rev() {
        let j = r.below(i as u64 + 1) as usize;
        idx.swap(i, j);
    }
    let style = r.below(5);
    let mut acc: Option<VExpr> = None;
    for &i in &idx {
        let n = amounts[i];
        // sometimes leave an all-zero class out entirely
        if n == 0 && r.chance(1, 2) {
            continue;
        }
        let can_negate = n != i128::MIN;
        let term = match style {
            1 if can_negate => VExpr::Neg(Box::new(single(r, &classes[i], -n))),
            _ => single(r, &classes[i], n),
        };
        acc = Some(match acc {
            None => term,
            Some(a) => match style {
                2 if can_negate => {
                    VExpr::Sub(Box::new(a), Box::new(single(r, &classes[i], -n)))
                }
                _ => VExpr::Add(Box::new(a), Box::new(term)),
            },
        });
    }
    let v = acc.unwrap_or(VExpr::Empty);
    match style {
        3 => VExpr::Add(Box::new(VExpr::Empty), Box::new(v)),
        4 => VExpr::Neg(Box::new(VExpr::Neg(Box::new(v)))),
        _ => v,
    }
}

fn exprs_roundtrip(a: &CanonicalAssets) -> CanonicalAssets {
    let exprs: Vec<AssetExpr> = a.clone().into();
    CanonicalAssets::from(exprs)
}

fn observe(a: &VExpr, b: &VExpr, c: &VExpr) -> Value {
    let res = guarded(|| {
        let va = a.eval();
        let vb = b.eval();
        let vc = c.eval();
        json!({
            "a": dump(&va), "b": dump(&vb), "c": dump(&vc),
            "eq_ab": va == vb,
            "ct_ab": va.contains_total(&vb),
            "cs_ab": va.contains_some(&vb),
            "empty_a": va.is_empty(),
            "eon_a": va.is_empty_or_negative(),
            "naked_a": va.is_only_naked(),
        })
    });
    let base = match res {
        Ok(v) => v,
        Err(site) => return json!({"panic": site, "stage": "eval"}),
    };
    // the laws, each evaluated with the implementation's own `==`
    let laws = guarded(|| {
        let (va, vb, vc) = (a.eval(), b.eval(), c.eval());
        // entries with amount zero are immaterial: a value and the same value after a trip through + (which drops
        // them) answer every question alike, on either side of it
        let zero_immaterial = {
                let na = va.clone() + CanonicalAssets::empty();
                let nb = vb.clone() + CanonicalAssets::empty();
                na == va
                    && va.is_empty() == na.is_empty()
                    && va.is_empty_or_negative() == na.is_empty_or_negative()
                    && va.is_only_naked() == na.is_only_naked()
                    && va.contains_some(&vb) == na.contains_some(&vb)
                    && va.contains_total(&vb) == na.contains_total(&vb)
                    && va.contains_some(&vb) == va.contains_some(&nb)
                    && va.contains_total(&vb) == va.contains_total(&nb)
                    && vc.contains_some(&vb) == vc.contains_some(&nb)
                    && vc.contains_total(&vb) == vc.contains_total(&nb)
            };
        json!({
            "comm": va.clone() + vb.clone() == vb.clone() + va.clone(),
            "assoc": (va.clone() + vb.clone()) + vc.clone() == va.clone() + (vb.clone() + vc.clone()),
            "sub_neg": va.clone() - vb.clone() == va.clone() + (-vb.clone()),
            "cancel": (va.clone() - vb.clone()) + vb.clone() == va.clone(),
            "add_ab": dump(&(va.clone() + vb.clone())),
            "sub_ab": dump(&(va.clone() - vb.clone())),
            "neg_a": dump(&(-va.clone())),
            "rt_a": dump(&exprs_roundtrip(&va)),
            "rt_eq": exprs_roundtrip(&va) == va,
            "zero_immaterial": zero_immaterial,
        })
    });
    let mut base = base;
    match laws {
        Ok(l) => {
            base["laws"] = l;
        }
        Err(site) => {
            base["laws_panic"] = Value::String(site);
        }
    }
    base
}

fn emit(out: &mut Emitter, gen: &str, a: &VExpr, b: &VExpr, c: &VExpr) {
    out.case(gen, || {
        let obs = observe(a, b, c);
        json!({"a": a.to_json(), "b": b.to_json(), "c": c.to_json(), "obs": obs})
    });
}

fn random_class(r: &mut Rng) -> AssetClass {
    match r.below(8) {
        0 => AssetClass::Naked,
        1 => AssetClass::Named(b"nm".to_vec()),
        2 => AssetClass::Defined(P1.to_vec(), b"TK1".to_vec()),
        3 => AssetClass::Defined(P2.to_vec(), vec![]),
        4 => {
            let l = *r.pick(&[1usize, 27, 28, 29, 32]);
            { let nl = r.below(5) as usize; AssetClass::Defined(r.bytes(l), r.bytes(nl)) }
        }
        5 => AssetClass::Defined(P1.to_vec(), b"TK2".to_vec()),
        6 => { let nl = 1 + r.below(3) as usize; AssetClass::Named(r.bytes(nl)) }
        _ => AssetClass::Defined(P1.to_vec(), vec![]),
    }
}

/// amounts across the i128 range such that three-fold sums cannot overflow
fn safe_amount(r: &mut Rng) -> i128 {
    boundary_i128(r) / 8
}

pub fn run(opts: &Opts, out: &mut Emitter) {
    let mut r = Rng::new(opts.seed);
    let cls = classes3();

    // corpus: the reproduced defect and close relatives
    let corpus: Vec<(VExpr, VExpr, VExpr)> = vec![
        (VExpr::Naked(0), VExpr::Empty, VExpr::Empty),
        (
            VExpr::Neg(Box::new(VExpr::Naked(0))),
            VExpr::Sub(Box::new(VExpr::Naked(3)), Box::new(VExpr::Naked(3))),
            VExpr::Named(vec![], 0),
        ),
        (
            VExpr::Defined(P1.to_vec(), b"TK1".to_vec(), 0),
            VExpr::Naked(0),
            VExpr::Asset(Some(vec![]), None, 0),
        ),
        (
            VExpr::Naked(i128::MAX),
            VExpr::Naked(1),
            VExpr::Naked(i128::MIN),
        ),
    ];
    for (a, b, c) in &corpus {
        emit(out, "corpus", a, b, c);
    }

    // the same law one level up, where the reducer meets a value: a - b = a + (-b) for every pair of constant
    // operands an amount can reduce to - nothing at all (`None`, the empty value of the IR), a number, an asset list
    {
        use tx3_tir::model::v1beta0 as tir;
        use tx3_tir::reduce::Apply as _;
        let tok = |n: i128| tir::AssetExpr { policy: tir::Expression::Bytes(P1.to_vec()), asset_name: tir::Expression::Bytes(b"TK1".to_vec()), amount: tir::Expression::Number(n) };
        let ada = |n: i128| tir::AssetExpr { policy: tir::Expression::None, asset_name: tir::Expression::None, amount: tir::Expression::Number(n) };
        let pool: Vec<(&str, tir::Expression)> = vec![
            ("none", tir::Expression::None),
            ("0", tir::Expression::Number(0)),
            ("5", tir::Expression::Number(5)),
            ("-3", tir::Expression::Number(-3)),
            ("[]", tir::Expression::Assets(vec![])),
            ("[ada 5]", tir::Expression::Assets(vec![ada(5)])),
            ("[tok 2, ada -1]", tir::Expression::Assets(vec![tok(2), ada(-1)])),
            // single entries of one policy under different names, a bare name, the same class twice
            ("[tok 2]", tir::Expression::Assets(vec![tok(2)])),
            ("[tok2 3]", tir::Expression::Assets(vec![tir::AssetExpr { policy: tir::Expression::Bytes(P1.to_vec()), asset_name: tir::Expression::Bytes(b"TK2".to_vec()), amount: tir::Expression::Number(3) }])),
            ("[name 4]", tir::Expression::Assets(vec![tir::AssetExpr { policy: tir::Expression::None, asset_name: tir::Expression::Bytes(b"nm".to_vec()), amount: tir::Expression::Number(4) }])),
            ("[tok -2]", tir::Expression::Assets(vec![tok(-2)])),
            // one class written twice (or three times) in one list: the entries add up
            ("[ada 1, ada 1]", tir::Expression::Assets(vec![ada(1), ada(1)])),
            ("[tok 2, tok 3, ada 1]", tir::Expression::Assets(vec![tok(2), tok(3), ada(1)])),
            ("[ada 4, tok 1, ada -4, tok 1, tok 1]", tir::Expression::Assets(vec![ada(4), tok(1), ada(-4), tok(1), tok(1)])),
        ];
        // what a reduced amount means: nothing, a number, or amounts per class (zeros immaterial)
        let meaning = |e: tir::Expression| -> Value {
            match guarded(|| e.reduce()) {
                Ok(Ok(tir::Expression::None)) => json!({"ok": "empty"}),
                Ok(Ok(tir::Expression::Number(n))) => json!({"ok": {"number": int(n)}}),
                Ok(Ok(tir::Expression::Assets(xs))) => {
                    let c = CanonicalAssets::from(xs);
                    let mut entries: Vec<(String, String)> = c.iter().filter(|(_, v)| **v != 0).map(|(k, v)| (format!("{k:?}"), v.to_string())).collect();
                    entries.sort();
                    if entries.is_empty() { json!({"ok": "empty"}) } else { json!({"ok": {"assets": entries}}) }
                }
                Ok(Ok(other)) => json!({"ok": {"other": format!("{other:?}").chars().take(40).collect::<String>()}}),
                Ok(Err(_)) => json!({"err": true}),
                Err(site) => json!({"panic": site}),
            }
        };
        for (an, a) in pool.iter() {
            for (bn, b) in pool.iter() {
                let lhs = tir::Expression::EvalBuiltIn(Box::new(tir::BuiltInOp::Sub(a.clone(), b.clone())));
                let rhs = tir::Expression::EvalBuiltIn(Box::new(tir::BuiltInOp::Add(
                    a.clone(),
                    tir::Expression::EvalBuiltIn(Box::new(tir::BuiltInOp::Negate(b.clone()))),
                )));
                // the reducer's + against the value algebra, in both orders (only for two asset lists)
                let sum = |x: &tir::Expression, y: &tir::Expression| tir::Expression::EvalBuiltIn(Box::new(tir::BuiltInOp::Add(x.clone(), y.clone())));
                let value_sum: Value = match (a, b) {
                    (tir::Expression::Assets(xs), tir::Expression::Assets(ys)) => {
                        let c = CanonicalAssets::from(xs.clone()) + CanonicalAssets::from(ys.clone());
                        let mut entries: Vec<(String, String)> = c.iter().filter(|(_, v)| **v != 0).map(|(k, v)| (format!("{k:?}"), v.to_string())).collect();
                        entries.sort();
                        if entries.is_empty() { json!({"ok": "empty"}) } else { json!({"ok": {"assets": entries}}) }
                    }
                    _ => Value::Null,
                };
                out.case("expr-law", || json!({"probe": "expr-law", "a": an, "b": bn, "obs": {"sub": meaning(lhs.clone()), "add_neg": meaning(rhs.clone()),
                    "add": meaning(sum(a, b)), "add_flipped": meaning(sum(b, a)), "value_add": value_sum}}));
            }
        }
    }

    // exhaustive small scope: every (a, b) over 3 classes with amounts -2..2, c random
    // (thorough: every (a, b, c))
    let amounts: Vec<i128> = vec![-2, -1, 0, 1, 2];
    let mut vals: Vec<[i128; 3]> = vec![];
    for x in &amounts {
        for y in &amounts {
            for z in &amounts {
                vals.push([*x, *y, *z]);
            }
        }
    }
    for va in &vals {
        for vb in &vals {
            if opts.thorough {
                for vc in &vals {
                    // the full cube is 1.9M cases: sample a third of it deterministically per seed
                    if r.below(6) != 0 {
                        continue;
                    }
                    let a = build(&mut r, &cls, va);
                    let b = build(&mut r, &cls, vb);
                    let c = build(&mut r, &cls, vc);
                    emit(out, "small3", &a, &b, &c);
                }
            } else {
                let vc = r.pick(&vals).clone();
                let a = build(&mut r, &cls, va);
                let b = build(&mut r, &cls, vb);
                let c = build(&mut r, &cls, &vc);
                emit(out, "small2", &a, &b, &c);
            }
        }
    }

    // random: arbitrary classes, amounts across the i128 range
    for _ in 0..opts.n {
        let k = 1 + r.below(4) as usize;
        let classes: Vec<AssetClass> = {
            let mut v: Vec<AssetClass> = vec![];
            while v.len() < k {
                let c = random_class(&mut r);
                if !v.contains(&c) {
                    v.push(c);
                }
            }
            v
        };
        let mk = |r: &mut Rng| {
            let am: Vec<i128> = (0..k).map(|_| safe_amount(r)).collect();
            build(r, &classes, &am)
        };
        let a = mk(&mut r);
        let b = if r.chance(1, 5) { a.clone() } else { mk(&mut r) };
        let c = mk(&mut r);
        emit(out, "random", &a, &b, &c);
    }

    // overflow stream: the model must predict exactly when the debug build panics
    for _ in 0..(opts.n / 10).max(20) {
        let a = VExpr::Naked(boundary_i128(&mut r));
        let b = VExpr::Naked(boundary_i128(&mut r));
        let c = VExpr::Naked(boundary_i128(&mut r));
        emit(out, "overflow", &a, &b, &c);
    }
}
