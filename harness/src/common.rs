use std::cell::RefCell;
use std::panic::{catch_unwind, AssertUnwindSafe};

/// splitmix64 — the one PRNG every generator derives from.
pub struct Rng(pub u64);

impl Rng {
    pub fn new(seed: u64) -> Self {
        Rng(seed.wrapping_mul(0x9E37_79B9_7F4A_7C15) ^ 0xD1B5_4A32_D192_ED03)
    }
    pub fn next(&mut self) -> u64 {
        self.0 = self.0.wrapping_add(0x9E37_79B9_7F4A_7C15);
        let mut z = self.0;
        z = (z ^ (z >> 30)).wrapping_mul(0xBF58_476D_1CE4_E5B9);
        z = (z ^ (z >> 27)).wrapping_mul(0x94D0_49BB_1331_11EB);
        z ^ (z >> 31)
    }
    pub fn below(&mut self, n: u64) -> u64 {
        if n == 0 {
            0
        } else {
            self.next() % n
        }
    }
    pub fn range(&mut self, lo: i64, hi: i64) -> i64 {
        lo + self.below((hi - lo + 1) as u64) as i64
    }
    pub fn chance(&mut self, num: u64, den: u64) -> bool {
        self.below(den) < num
    }
    pub fn pick<'a, T>(&mut self, xs: &'a [T]) -> &'a T {
        &xs[self.below(xs.len() as u64) as usize]
    }
    pub fn bytes(&mut self, len: usize) -> Vec<u8> {
        (0..len).map(|_| self.next() as u8).collect()
    }
    pub fn fork(&mut self) -> Rng {
        Rng(self.next())
    }
}

thread_local! {
    static LAST_PANIC: RefCell<Option<String>> = const { RefCell::new(None) };
    static GUARD_DEPTH: RefCell<u32> = const { RefCell::new(0) };
}

pub fn install_panic_hook() {
    std::panic::set_hook(Box::new(|info| {
        let loc = info
            .location()
            .map(|l| {
                let f = l.file();
                // keep the path relative to the repo so that replays are stable
                let f = f.strip_prefix("/repo/").unwrap_or(f);
                format!("{}:{}", f, l.line())
            })
            .unwrap_or_else(|| "unknown".to_string());
        let msg = if let Some(s) = info.payload().downcast_ref::<&str>() {
            s.to_string()
        } else if let Some(s) = info.payload().downcast_ref::<String>() {
            s.clone()
        } else {
            String::new()
        };
        let msg: String = msg.chars().take(120).collect();
        if GUARD_DEPTH.with(|d| *d.borrow()) == 0 {
            eprintln!("harness panic outside a guarded probe: {loc}: {msg}");
        }
        LAST_PANIC.with(|p| *p.borrow_mut() = Some(format!("{loc}|{msg}")));
    }));
}

/// Runs `f`, turning a panic into `Err(site)`.
pub fn guarded<T>(f: impl FnOnce() -> T) -> Result<T, String> {
    LAST_PANIC.with(|p| *p.borrow_mut() = None);
    GUARD_DEPTH.with(|d| *d.borrow_mut() += 1);
    let r = catch_unwind(AssertUnwindSafe(f));
    GUARD_DEPTH.with(|d| *d.borrow_mut() -= 1);
    match r {
        Ok(x) => Ok(x),
        Err(_) => Err(LAST_PANIC
            .with(|p| p.borrow_mut().take())
            .unwrap_or_else(|| "unknown".to_string())),
    }
}

pub fn hx(b: &[u8]) -> String {
    hex::encode(b)
}

/// Big integers cross the protocol as decimal strings.
pub fn int(x: i128) -> serde_json::Value {
    serde_json::Value::String(x.to_string())
}

/// Boundary-heavy i128 distribution.
pub fn boundary_i128(r: &mut Rng) -> i128 {
    const B: [i128; 17] = [
        0,
        1,
        -1,
        2,
        (1 << 31) - 1,
        1 << 31,
        -(1 << 31),
        (1 << 63) - 1,
        1 << 63,
        -(1 << 63),
        -(1 << 63) - 1,
        (1 << 64) - 1,
        1 << 64,
        -(1 << 64),
        i128::MAX,
        i128::MIN,
        i128::MIN + 1,
    ];
    match r.below(4) {
        0 => *r.pick(&B),
        1 => r.range(-5, 5) as i128,
        2 => r.range(0, 10_000_000) as i128,
        _ => {
            let hi = r.next() as i128;
            let lo = r.next() as i128;
            let x = (hi << 64) | (lo & 0xFFFF_FFFF_FFFF_FFFF);
            x >> r.below(127)
        }
    }
}

/// Numbers cases and writes them; with `--only i` every other case is skipped
/// *without being executed* (generation stays deterministic because the
/// generators never depend on what the real code returned).
pub struct Emitter<'a> {
    pub out: &'a mut dyn std::io::Write,
    pub next: usize,
    pub only: Option<usize>,
}

impl<'a> Emitter<'a> {
    pub fn new(out: &'a mut dyn std::io::Write, only: Option<usize>) -> Self {
        Emitter { out, next: 0, only }
    }

    /// `f` builds the case object (inputs + observation); `i` and `gen` are added here.
    pub fn case(&mut self, gen: &str, f: impl FnOnce() -> serde_json::Value) {
        let i = self.next;
        self.next += 1;
        if let Some(o) = self.only {
            if o != i {
                return;
            }
        }
        let mut v = f();
        v["i"] = serde_json::json!(i);
        v["gen"] = serde_json::json!(gen);
        writeln!(self.out, "{}", v).unwrap();
        // an abort of the code under test must not take finished cases with it
        let _ = self.out.flush();
    }
}

/// Names harvested from the source of the crates as it stands: every identifier-like segment of every string
/// literal in the non-test sources (`"{}_script"` gives `_script`, `"collateral"` gives `collateral`). A generator
/// that draws names for blocks, parameters or parties from this pool meets whatever a piece of code has come to
/// treat specially by name - by equality, prefix, suffix or containment - without knowing which.
pub fn magic_names() -> Vec<String> {
    fn walk(dir: &std::path::Path, out: &mut Vec<std::path::PathBuf>) {
        if let Ok(rd) = std::fs::read_dir(dir) {
            let mut es: Vec<_> = rd.flatten().map(|e| e.path()).collect();
            es.sort();
            for p in es {
                if p.is_dir() {
                    let n = p.file_name().and_then(|x| x.to_str()).unwrap_or("");
                    if n != "target" && n != "tests" && n != "snapshots" {
                        walk(&p, out);
                    }
                } else if p.extension().and_then(|x| x.to_str()) == Some("rs") {
                    out.push(p);
                }
            }
        }
    }
    let root = std::env::var("TX3_REPO").unwrap_or_else(|_| "/repo".to_string());
    let mut files = vec![];
    for c in ["crates/tx3-resolver/src", "crates/tx3-tir/src", "crates/tx3-cardano/src", "crates/tx3-lang/src", "bin/tx3c/src"] {
        walk(&std::path::Path::new(&root).join(c), &mut files);
    }
    let mut seen = std::collections::BTreeSet::new();
    for f in files {
        let Ok(text) = std::fs::read_to_string(&f) else { continue };
        for line in text.lines() {
            let t = line.trim_start();
            if t.starts_with("//") {
                continue;
            }
            let mut rest = line;
            while let Some(a) = rest.find('"') {
                let after = &rest[a + 1..];
                let Some(b) = after.find('"') else { break };
                let lit = &after[..b];
                for seg in lit.split(|c: char| !(c.is_ascii_alphanumeric() || c == '_')) {
                    let s = seg.to_ascii_lowercase();
                    if s.len() >= 3 && s.len() <= 20 && s.chars().any(|c| c.is_ascii_alphabetic()) {
                        seen.insert(s);
                    }
                }
                rest = &after[b + 1..];
            }
        }
    }
    seen.into_iter().collect()
}
