//! In-memory `UtxoStore` and the compiler configuration used by the probes.

use std::collections::{HashMap, HashSet};
use tx3_resolver::{Error, UtxoPattern, UtxoStore};
use tx3_tir::model::assets::AssetClass;
use tx3_tir::model::core::{Utxo, UtxoRef, UtxoSet};

#[derive(Default, Clone)]
pub struct MemStore {
    pub utxos: Vec<Utxo>,
}

impl UtxoStore for MemStore {
    async fn narrow_refs(&self, pattern: UtxoPattern<'_>) -> Result<HashSet<UtxoRef>, Error> {
        let out = self
            .utxos
            .iter()
            .filter(|u| match &pattern {
                UtxoPattern::ByAddress(a) => u.address.as_slice() == *a,
                UtxoPattern::ByAssetPolicy(p) => u
                    .assets
                    .iter()
                    .any(|(c, n)| *n > 0 && c.policy() == Some(*p)),
                UtxoPattern::ByAsset(p, n) => u
                    .assets
                    .iter()
                    .any(|(c, amt)| *amt > 0 && *c == AssetClass::Defined(p.to_vec(), n.to_vec())),
            })
            .map(|u| u.r#ref.clone())
            .collect();
        Ok(out)
    }

    async fn fetch_utxos(&self, refs: HashSet<UtxoRef>) -> Result<UtxoSet, Error> {
        Ok(self
            .utxos
            .iter()
            .filter(|u| refs.contains(&u.r#ref))
            .cloned()
            .collect())
    }
}

pub const COST_MODEL: [i64; 10] = [100788, 420, 1, 1, 1000, 173, 0, 1, 1000, 59957];

pub const CURSOR_SLOT: u64 = 101_674_141;
pub const CURSOR_TIME: u128 = 1_757_611_408;

pub fn pparams(
    mainnet: bool,
    a: u64,
    b: u64,
    coins_per_byte: u64,
    with_cost_models: bool,
) -> tx3_cardano::PParams {
    pparams_with(mainnet, a, b, coins_per_byte, if with_cost_models { &[0, 1, 2] } else { &[] })
}

/// Protocol parameters holding the cost models of the given Plutus versions only (0 = v1, 1 = v2, 2 = v3).
pub fn pparams_with(mainnet: bool, a: u64, b: u64, coins_per_byte: u64, versions: &[u8]) -> tx3_cardano::PParams {
    let with_cost_models = true;
    let mut cost_models = HashMap::new();
    if with_cost_models {
        // one cost model per Plutus version, all different (the language view of the script data hash depends on
        // which one is used)
        for v in versions {
            cost_models.insert(*v, COST_MODEL.iter().map(|x| x + *v as i64).collect());
        }
    }
    tx3_cardano::PParams {
        network: if mainnet {
            tx3_cardano::Network::Mainnet
        } else {
            tx3_cardano::Network::Testnet
        },
        min_fee_coefficient: a,
        min_fee_constant: b,
        coins_per_utxo_byte: coins_per_byte,
        cost_models,
    }
}

pub fn compiler(pp: tx3_cardano::PParams, extra_fees: Option<u64>) -> tx3_cardano::Compiler {
    tx3_cardano::Compiler::new(
        pp,
        tx3_cardano::Config { extra_fees },
        tx3_cardano::ChainPoint {
            slot: CURSOR_SLOT,
            hash: vec![],
            timestamp: CURSOR_TIME,
        },
    )
}

pub fn default_compiler() -> tx3_cardano::Compiler {
    compiler(pparams(false, 44, 155_381, 4310, true), Some(0))
}
