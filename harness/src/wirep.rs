//! Wire-format probes: C11 (round trip, garbage), C18 (determinism), C17 (TII).

use crate::common::*;
use crate::stages::canon;
use crate::tirgen::Gen;
use crate::tirjson::*;
use crate::Opts;
use serde_json::{json, Value};
use std::io::Read;
use tx3_tir::encoding::{self, AnyTir, TirVersion};
use tx3_tir::model::v1beta0 as tir;
use tx3_tir::reduce::Apply as _;

pub fn example_sources() -> Vec<(String, String)> {
    // (with the feature programs of the front-end corpus: the ones that lower take part)
    let mut out = crate::frontp::extra_corpus();
    let dir = "/repo/examples";
    let mut names: Vec<_> = std::fs::read_dir(dir)
        .map(|d| d.filter_map(|e| e.ok()).map(|e| e.path()).collect::<Vec<_>>())
        .unwrap_or_default();
    names.sort();
    for p in names {
        if p.extension().map(|e| e == "tx3").unwrap_or(false) {
            if let Ok(src) = std::fs::read_to_string(&p) {
                out.push((p.file_name().unwrap().to_string_lossy().to_string(), src));
            }
        }
    }
    out
}

/// Every transaction of a program that parses, analyses clean and lowers.
pub fn lower_all(src: &str) -> Vec<(String, tir::Tx)> {
    let r = guarded(|| {
        let mut ws = tx3_lang::Workspace::from_string(src.to_string());
        if ws.lower().is_err() {
            return vec![];
        }
        let names: Vec<String> = ws.ast().map(|a| a.txs.iter().map(|t| t.name.value.clone()).collect()).unwrap_or_default();
        names.into_iter().filter_map(|n| ws.tir(&n).cloned().map(|t| (n, t))).collect::<Vec<_>>()
    });
    r.unwrap_or_default()
}

/// A valid core program with two to four of everything that the language lets one write several
/// of (references, signers, metadata entries, mints, burns, directives, parameters, locals, parties,
/// env fields): any container that forgets the written order shows up as more than one encoding.
pub fn plural_source(r: &mut Rng) -> String {
    use crate::langgen::*;
    let (mut p, _w) = crate::c01p::gen(r);
    {
        let parties = p.parties.clone();
        let t = &mut p.txs[0];
        let nref = 2 + r.below(3);
        for k in 0..nref {
            // names, labels and keys come from small pools: an entry written twice under one name or label is
            // part of "several of everything" (a container keyed by it only forgets the order when keys repeat)
            let name = (*r.pick(&["zeta", "alpha", "mid", "beta", "omega", "kappa"])).to_string() + &(if r.chance(1, 2) { k.to_string() } else { String::new() });
            t.references.push((name, E::UtxoRef(hx(&[0x70 + k as u8; 32]), r.below(4))));
        }
        let mut sg = t.signers.take().unwrap_or_default();
        // signers from a small pool (parties and three keys): several distinct ones, and now and then one twice
        for _ in 0..(3 + r.below(3)) {
            if r.chance(1, 2) {
                sg.push(E::Hex(hx(&[0x50 + r.below(3) as u8; 28])));
            } else {
                sg.push(E::Id(r.pick(&parties).clone()));
            }
        }
        t.signers = Some(sg);
        let mut md = t.metadata.take().unwrap_or_default();
        for _ in 0..(2 + r.below(3)) {
            let label = if r.chance(1, 2) { *r.pick(&[1i64, 2, 674]) } else { 100 + r.below(900) as i64 };
            md.push((E::Num(label), E::Str(format!("m{}", r.below(50)))));
        }
        t.metadata = Some(md);
        for _ in 0..(1 + r.below(3)) {
            t.mints.push(MintBlock { amount: Some(E::AnyAsset(Box::new(E::Hex(hx(&[0x4d; 28]))), Box::new(E::Str(format!("N{}", r.below(5)))), Box::new(E::Num(1 + r.below(9) as i64)))), redeemer: None });
        }
        for _ in 0..r.below(3) {
            t.burns.push(MintBlock { amount: Some(E::AnyAsset(Box::new(E::Hex(hx(&[0x4e; 28]))), Box::new(E::Str(format!("B{}", r.below(5)))), Box::new(E::Num(1 + r.below(9) as i64)))), redeemer: None });
        }
        for k in 0..(2 + r.below(2)) {
            let party = E::Id(r.pick(&parties).clone());
            t.adhoc.push(("withdrawal".into(), vec![("from".into(), party), ("amount".into(), E::Num(k as i64)), ("redeemer".into(), E::Unit)]));
        }
        if r.chance(1, 2) {
            t.adhoc.push(("native_witness".into(), vec![("script".into(), E::Hex("820181820400".into()))]));
            t.adhoc.push(("plutus_witness".into(), vec![("version".into(), E::Num(3)), ("script".into(), E::Hex("5101010023259800a518a4d136564004ae69".into()))]));
        }
        for k in 0..(1 + r.below(3)) {
            t.locals.push((format!("extra_local{k}"), E::Num(k as i64)));
        }
    }
    print_program(&mut Layout::plain(), &p)
}

/// Every operator of the language over constant multi-asset operands (four asset classes under four policies), in
/// every position an amount can stand in: whatever lowering does with a constant - leave it, fold it - must come out
/// the same way every time.
pub fn constant_sources() -> Vec<(String, String)> {
    let defs = "party Sender;\nparty Receiver;\nasset Gold = 0x11111111111111111111111111111111111111111111111111111111.\"GOLD\";\nasset Silver = 0x22222222222222222222222222222222222222222222222222222222.\"SILVER\";\nasset Bronze = 0x33333333333333333333333333333333333333333333333333333333.\"BRONZE\";\nasset Iron = 0x44444444444444444444444444444444444444444444444444444444.\"IRON\";\n\n";
    let exprs = [
        "Gold(1) + Silver(2) + Bronze(3) + Iron(4)",
        "!(Gold(1) + Silver(2) + Bronze(3) + Iron(4))",
        "Gold(9) + Silver(9) + Bronze(9) + Iron(9) - Gold(1) - Silver(2) - Bronze(3)",
        "!(!(Gold(1) + Silver(2)) + !(Bronze(3) + Iron(4)))",
        "Ada(2000000) + Gold(1) + Silver(2) + Bronze(3) + Iron(4)",
        "AnyAsset(0x11111111111111111111111111111111111111111111111111111111, \"A\", 1) + AnyAsset(0x22222222222222222222222222222222222222222222222222222222, \"B\", 2) + AnyAsset(0x33333333333333333333333333333333333333333333333333333333, \"C\", 3) - AnyAsset(0x44444444444444444444444444444444444444444444444444444444, \"D\", 4)",
    ];
    let mut out = vec![];
    // references written as lists: two or three outputs of one transaction, outputs of different transactions, one twice
    let r = |b: u8, i: u32| format!("0x{}#{i}", format!("{b:02x}").repeat(32));
    for (k, list) in [vec![r(1, 0), r(1, 1)], vec![r(1, 1), r(1, 0), r(1, 2)], vec![r(2, 0), r(1, 0)], vec![r(1, 0), r(1, 0)], vec![r(1, 5), r(2, 5), r(1, 4), r(2, 4)]].iter().enumerate() {
        let l = list.join(", ");
        let src = format!("{defs}tx t(quantity: Int) {{\n    input source {{\n        from: Sender,\n        min_amount: Ada(quantity) + fees,\n        ref: [{l}],\n    }}\n    reference shared {{\n        ref: [{l}],\n    }}\n    collateral {{\n        ref: [{l}],\n    }}\n    output {{\n        to: Receiver,\n        amount: source - fees,\n    }}\n}}\n");
        out.push((format!("gen-ref-lists-{k}"), src));
    }
    // a block written two or three times over, verbatim: every time the program is lowered it says the same thing
    // as many times
    let blocks = [
        "    cardano::withdrawal {\n        from: Sender,\n        amount: 0,\n        redeemer: (),\n    }\n".to_string(),
        "    cardano::treasury_donation {\n        coin: 5,\n    }\n".to_string(),
        format!("    cardano::plutus_witness {{\n        version: 3,\n        script: 0x{},\n    }}\n", "ab".repeat(12)),
        format!("    cardano::native_witness {{\n        script: 0x{},\n    }}\n", "8200581c".to_string() + &"11".repeat(28)),
        "    mint {\n        amount: Gold(1),\n        redeemer: (),\n    }\n".to_string(),
        "    metadata {\n        1: \"memo\",\n        2: quantity,\n    }\n".to_string(),
        "    output {\n        to: Receiver,\n        amount: Ada(quantity),\n    }\n".to_string(),
        "    signers {\n        Sender,\n        Receiver,\n    }\n".to_string(),
    ];
    for (k, b) in blocks.iter().enumerate() {
        for times in [2usize, 3] {
            let body = b.repeat(times);
            let src = format!("{defs}tx t(quantity: Int) {{\n    input source {{\n        from: Sender,\n        min_amount: Ada(quantity) + fees,\n    }}\n{body}    output {{\n        to: Receiver,\n        amount: source - fees,\n    }}\n}}\n");
            out.push((format!("gen-block-x{times}-{k}"), src));
        }
    }
    for (k, e) in exprs.iter().enumerate() {
        for place in 0..4 {
            let (min_amount, mint, burn, pay) = match place {
                0 => (format!("{e} + fees"), String::new(), String::new(), "Ada(quantity)".to_string()),
                1 => ("Ada(quantity) + fees".to_string(), format!("    mint {{\n        amount: {e},\n        redeemer: (),\n    }}\n"), String::new(), "Ada(quantity)".to_string()),
                2 => ("Ada(quantity) + fees".to_string(), String::new(), format!("    burn {{\n        amount: {e},\n        redeemer: (),\n    }}\n"), "Ada(quantity)".to_string()),
                _ => ("Ada(quantity) + fees".to_string(), String::new(), String::new(), format!("Ada(quantity) + {e}")),
            };
            let src = format!("{defs}tx t(quantity: Int) {{\n    input source {{\n        from: Sender,\n        min_amount: {min_amount},\n    }}\n{mint}{burn}    output {{\n        to: Receiver,\n        amount: {pay},\n    }}\n    output {{\n        to: Sender,\n        amount: source - Ada(quantity) - fees,\n    }}\n}}\n");
            out.push((format!("gen-constants-{k}-{place}"), src));
        }
    }
    out
}

pub fn generated_sources(r: &mut Rng, n: usize) -> Vec<(String, String)> {
    let mut out = constant_sources();
    for k in 0..n {
        if k % 2 == 1 {
            out.push((format!("gen{k}-plural"), plural_source(r)));
            continue;
        }
        if k % 6 == 0 {
            out.push((format!("gen{k}-alike"), alike_source(r)));
            continue;
        }
        if k % 6 == 2 {
            out.push((format!("gen{k}-folded"), folded_source(r)));
            continue;
        }
        let t = match r.below(3) {
            0 => crate::resolvep::template(r.below(5) as usize, r.below(4) as usize),
            1 => crate::resolvep::min_utxo_template(r.below(4) as usize),
            _ => withdrawal_source(r),
        };
        out.push((format!("gen{k}"), t.src));
    }
    out
}

/// Programs that give the same names (a policy, an asset, a record, a transaction) different contents: what one of
/// them lowers to must not depend on which of the others was lowered before it in the same process.
pub fn alike_source(r: &mut Rng) -> String {
    let h = *r.pick(&[0x11u8, 0x22, 0x33]);
    let tk = *r.pick(&["TK", "TQ"]);
    let (bty, bval) = *r.pick(&[("Bytes", "0xab"), ("Int", "7")]);
    let tok = format!("AnyAsset(Pol, \"{tk}\", quantity)");
    let mint = if r.chance(1, 2) { format!("    mint {{\n        amount: {tok},\n        redeemer: (),\n    }}\n") } else { String::new() };
    format!(
        "party Sender;\nparty Receiver;\npolicy Pol = 0x{};\ntype R {{\n    a: Int,\n    b: {bty},\n}}\n\ntx t(quantity: Int) {{\n    input source {{\n        from: Sender,\n        min_amount: Ada(quantity) + fees,\n    }}\n{mint}    output {{\n        to: Receiver,\n        amount: source - fees + {tok},\n        datum: R {{ a: quantity, b: {bval}, }},\n    }}\n}}\n",
        hx(&[h; 28])
    )
}

/// Two definitions of different kinds whose names differ only by case, and a reference written in a third spelling:
/// no definition has that name, so the program is refused - whatever a toolchain does with it, it does every time.
pub fn folded_source(r: &mut Rng) -> String {
    let (a, b, c) = *r.pick(&[("Vault", "VAULT", "vault"), ("vault", "Vault", "VAULT"), ("Pool", "pool", "POOL")]);
    let h = *r.pick(&[0x11u8, 0x22]);
    let second = match r.below(3) {
        0 => format!("policy {b} = 0x{};", hx(&[h; 28])),
        1 => format!("party {b}x;\ntype {b} {{\n    n: Int,\n}}"),
        _ => format!("asset {b} = 0x{}.\"TK\";", hx(&[h; 28])),
    };
    format!(
        "party Sender;\nparty {a};\n{second}\n\ntx t(quantity: Int) {{\n    input source {{\n        from: Sender,\n        min_amount: Ada(quantity) + fees,\n    }}\n    output {{\n        to: {c},\n        amount: source - fees,\n    }}\n}}\n"
    )
}

/// Chain-specific directives with several fields (where hash order used to leak).
pub fn withdrawal_source(r: &mut Rng) -> crate::resolvep::Template {
    let n = 1 + r.below(3);
    let mut blocks = String::new();
    for i in 0..n {
        blocks.push_str(&format!(
            "    cardano::withdrawal {{\n        from: Sender,\n        amount: {},\n        redeemer: {},\n    }}\n",
            i * 10,
            if r.chance(1, 2) { "()" } else { "7" }
        ));
    }
    if r.chance(1, 2) {
        blocks.push_str("    cardano::treasury_donation {\n        coin: 5,\n    }\n");
    }
    let src = format!(
        "party Sender;\nparty Receiver;\n\ntx t(quantity: Int) {{\n    input source {{\n        from: Sender,\n        min_amount: Ada(quantity) + fees,\n    }}\n{blocks}    output {{\n        to: Receiver,\n        amount: source - fees,\n    }}\n}}\n"
    );
    crate::resolvep::Template { src, tx: "t".into() }
}

fn roundtrip_obs(tx: &tir::Tx) -> Value {
    let enc = guarded(|| encoding::to_bytes(tx));
    let (bytes, version) = match enc {
        Ok(x) => x,
        Err(site) => return json!({"panic": site, "stage": "to_bytes"}),
    };
    let dec = guarded(|| encoding::from_bytes(&bytes, version.clone()));
    let rt = match dec {
        Ok(Ok(AnyTir::V1Beta0(t2))) => {
            let same = canon(&tx_json(tx)) == canon(&tx_json(&t2));
            let params_same = tx.params() == t2.params();
            let queries_same = tx.queries().keys().collect::<Vec<_>>() == t2.queries().keys().collect::<Vec<_>>();
            // encode again: the decoded value encodes to the same bytes
            let again = guarded(|| encoding::to_bytes(&t2)).map(|x| x.0 == bytes).unwrap_or(false);
            json!({"ok": true, "same": same, "params_same": params_same, "queries_same": queries_same, "reencode_same": again})
        }
        Ok(Err(e)) => json!({"ok": false, "err": e.to_string()}),
        Err(site) => json!({"panic": site, "stage": "from_bytes"}),
    };
    json!({"bytes": hx(&bytes), "version": version.to_string(), "roundtrip": rt})
}

pub fn run_c11(opts: &Opts, out: &mut Emitter) {
    let mut g = Gen::new(Rng::new(opts.seed ^ 0x1111));
    // lowered programs
    let mut r = Rng::new(opts.seed ^ 0x1112);
    let mut sources = example_sources();
    sources.extend(generated_sources(&mut r, 30));
    for (name, src) in &sources {
        for (txname, tx) in lower_all(src) {
            out.case("lowered", || json!({"probe": "roundtrip", "origin": format!("{name}:{txname}"), "tx": tx_json(&tx), "obs": roundtrip_obs(&tx)}));
        }
    }
    // random IR trees, every variant, depth up to 6 (applied ones too, so UtxoSets occur)
    for k in 0..opts.n {
        g.param_rate = 2 + (k as u64 % 6);
        g.malformed = k % 5 == 0;
        g.boundary_ints = k % 3 == 0;
        let case = crate::stages::make_case(&mut g, 1 + (k as u32 % 6));
        let tx = if k % 2 == 0 {
            case.tx.clone()
        } else {
            tx3_tir::reduce::apply_inputs(case.tx.clone(), &case.inputs).unwrap_or(case.tx.clone())
        };
        out.case("random", || json!({"probe": "roundtrip", "tx": tx_json(&tx), "obs": roundtrip_obs(&tx)}));
    }
    // length sweep: byte strings, texts, lists and names at the lengths where encoders and decoders change gear
    // (CBOR head widths 23/24, 255/256; the 4096-byte scratch buffer of the decoder; script-sized payloads; longer
    // ones make the model reader, which works on lists, take minutes), in a datum, a redeemer, an address and a parameter name
    for len in [0usize, 23, 24, 255, 256, 4095, 4096, 4097, 5000] {
        use tx3_tir::model::v1beta0::Expression as E;
        let bytes: Vec<u8> = (0..len).map(|i| (i % 251) as u8).collect();
        let text: String = (0..len).map(|i| (b'a' + (i % 26) as u8) as char).collect();
        let shapes: Vec<(&str, E)> = vec![
            ("bytes", E::Bytes(bytes.clone())),
            ("text", E::String(text.clone())),
            ("address", E::Address(bytes.clone())),
            ("hash", E::Hash(bytes.clone())),
            ("list", E::List((0..len.min(5000)).map(|i| E::Number(i as i128)).collect())),
            ("param-name", param(&text, tx3_tir::model::core::Type::Custom(text.clone()))),
        ];
        for (what, e) in shapes {
            let mut t = empty_tx();
            t.outputs.push(tir::Output { address: E::None, datum: e.clone(), amount: E::None, optional: false });
            t.mints.push(tir::Mint { amount: E::None, redeemer: e });
            out.case("length-sweep", || json!({"probe": "roundtrip", "origin": format!("{what}:{len}"), "tx": tx_json(&t), "obs": roundtrip_obs(&t)}));
        }
    }
    // amount sweep: resolved UTxOs (what the input stage puts into a template) holding quantities at the edges of the
    // 64- and 128-bit ranges - the ledger's own quantities reach 2^64 - 1 - under one and under several classes
    for v in [0i128, 1, -1, (1 << 63) - 1, 1 << 63, 10_000_000_000_000_000_000, (1 << 64) - 1, 1 << 64, 3 * ((1i128 << 64) - 1), -(1 << 63), -(1 << 63) - 1, i128::MAX, i128::MIN] {
        use tx3_tir::model::assets::CanonicalAssets;
        use tx3_tir::model::core::{Utxo, UtxoRef};
        let assets = CanonicalAssets::from_naked_amount(v) + CanonicalAssets::from_defined_asset(&[0xaa; 28], b"TK", v) ;
        let mut set = std::collections::HashSet::new();
        set.insert(Utxo { r#ref: UtxoRef { txid: vec![5; 32], index: 1 }, address: vec![0x60; 29], assets, datum: None, script: None });
        let mut t = empty_tx();
        t.inputs.push(tir::Input { name: "source".into(), utxos: tir::Expression::UtxoSet(set), redeemer: tir::Expression::None });
        out.case("amount-sweep", || json!({"probe": "roundtrip", "origin": format!("utxo-amount:{v}"), "tx": tx_json(&t), "obs": roundtrip_obs(&t)}));
    }
    // name sweep: every name the IR carries (value parameters, input queries, input blocks, custom types, directive
    // names and field keys) spelled in ways lowering never writes - capitals, mixed case, wide characters, spaces,
    // the empty name: a decoder hands back the names it was given
    for name in ["Quantity", "QTY", "mixedCase_1", "Éclair", "with space", "", "ß", "İ", "fees", "collateral", "\u{0}nul"] {
        use tx3_tir::model::core::Type;
        let q = tir::InputQuery { address: tir::Expression::None, min_amount: tir::Expression::None, r#ref: tir::Expression::None, many: false, collateral: false };
        let mut t = empty_tx();
        t.fees = param(name, Type::Custom(name.to_string()));
        t.inputs.push(tir::Input { name: name.to_string(), utxos: input_param(name, q.clone()), redeemer: param(name, Type::Int) });
        t.collateral.push(tir::Collateral { utxos: input_param(&name.to_lowercase(), q) });
        t.adhoc.push(tir::AdHocDirective { name: name.to_string(), data: std::collections::HashMap::from([(name.to_string(), param(name, Type::Bytes))]) });
        out.case("name-sweep", || json!({"probe": "roundtrip", "origin": format!("name:{name}"), "tx": tx_json(&t), "obs": roundtrip_obs(&t)}));
    }
    // things on the wire (the built-in variant names, field names, the empty string)
    {
        use tx3_tir::model::core::Type;
        let mut tys = vec![
            Type::Undefined, Type::Unit, Type::Int, Type::Bool, Type::Bytes, Type::Address, Type::Utxo, Type::UtxoRef,
            Type::AnyAsset, Type::List, Type::Map,
        ];
        for n in ["MyDatum", "Undefined", "Unit", "Int", "Bool", "Bytes", "Address", "Utxo", "UtxoRef", "AnyAsset", "List", "Map", "Custom", "None", "fees", "", "é✓"] {
            tys.push(Type::Custom(n.to_string()));
        }
        for (k, ty) in tys.into_iter().enumerate() {
            let mut t = empty_tx();
            t.fees = param(&format!("p{k}"), ty.clone());
            t.references = vec![param("same", ty)];
            out.case("type-sweep", || json!({"probe": "roundtrip", "tx": tx_json(&t), "obs": roundtrip_obs(&t)}));
        }
    }
    run_nesting_boundary(out, opts.thorough);
    // version gate
    // the names the toolchain knows or knew, near misses, and names a client may send: every length up to 80, a
    // character of 2 or 4 bytes at every position of a 64-character name (an error that echoes part of the name
    // must cut it at a character boundary)
    let mut names: Vec<String> = ["v1beta0", "v1alpha8", "v1alpha9", "v2", "", "V1BETA0", "v1beta0 ", " v1beta0", "v1beta00", "v1beta", "v1beta1"]
        .iter()
        .map(|s| s.to_string())
        .collect();
    for n in 1..=80 {
        names.push("v".repeat(n));
        names.push("é".repeat(n));
    }
    for wide in ['é', '😀'] {
        for at in 0..64 {
            let mut t: Vec<char> = "v1beta0-this-is-not-a-version-anyone-has-ever-heard-of-before-xx".chars().collect();
            t[at] = wide;
            names.push(t.into_iter().collect());
        }
    }
    for v in names.iter().map(|s| s.as_str()) {
        out.case("version", || {
            let parsed = match guarded(|| TirVersion::try_from(v)) {
                Ok(p) => p,
                Err(site) => return json!({"probe": "version", "version": v, "obs": format!("panic:{site}")}),
            };
            let res = match parsed {
                Ok(ver) => {
                    let tx = empty_tx();
                    let (bytes, _) = encoding::to_bytes(&tx);
                    match guarded(|| encoding::from_bytes(&bytes, ver)) {
                        Ok(Ok(_)) => "ok".to_string(),
                        Ok(Err(e)) => match e {
                            encoding::Error::UnknownTirVersion(_) => "UnknownTirVersion".into(),
                            encoding::Error::DeprecatedTirVersion(_) => "DeprecatedTirVersion".into(),
                            encoding::Error::TirDeserializeError(_) => "TirDeserializeError".into(),
                        },
                        Err(site) => format!("panic:{site}"),
                    }
                }
                Err(encoding::Error::UnknownTirVersion(_)) => "UnknownTirVersion".to_string(),
                Err(_) => "other".to_string(),
            };
            json!({"probe": "version", "version": v, "obs": res})
        });
    }
    // garbage: run in a child process so that an abort or a stack overflow kills only the child
    let rounds = if opts.thorough { 40 } else { 6 };
    for k in 0..rounds {
        out.case("garbage", || {
            let exe = std::env::current_exe().unwrap();
            let child = std::process::Command::new(exe)
                .args(["C11-garbage", "--seed", &format!("{}", opts.seed.wrapping_add(k)), "--n", "400"])
                .stdout(std::process::Stdio::piped())
                .stderr(std::process::Stdio::null())
                .spawn();
            match child {
                Ok(mut c) => {
                    let mut s = String::new();
                    let _ = c.stdout.take().unwrap().read_to_string(&mut s);
                    let st = c.wait().ok();
                    let code = st.and_then(|s| s.code());
                    json!({"probe": "garbage", "exit": code, "report": serde_json::from_str::<Value>(s.trim()).unwrap_or(Value::Null)})
                }
                Err(e) => json!({"probe": "garbage", "exit": Value::Null, "report": Value::Null, "spawn_error": e.to_string()}),
            }
        });
    }
}

pub struct BombParts {
    /// (bytes before the slot, bytes after it, the slot's own encoding)
    pub slots: Vec<(Vec<u8>, Vec<u8>, Vec<u8>)>,
    /// (bytes a wrapper puts before its operand, bytes it puts after)
    pub wrappers: Vec<(Vec<u8>, Vec<u8>)>,
}

fn cbor_of<T: serde::Serialize>(t: &T) -> Vec<u8> {
    let mut b = vec![];
    ciborium::into_writer(t, &mut b).expect("encode");
    b
}

fn find(hay: &[u8], needle: &[u8]) -> Option<usize> {
    hay.windows(needle.len()).position(|w| w == needle)
}

fn valid_tx_for_bombs(g: &mut Gen) -> tir::Tx {
    crate::stages::make_case(g, 2).tx
}

/// Splits real encoder output around a marker expression, for every expression wrapper of the IR and for a
/// few slots of a transaction, so that nesting bombs can be assembled as bytes (no deep value is ever built).
fn typed_bomb_parts(base: &tir::Tx) -> BombParts {
    use tir::{BuiltInOp as B, Coerce, CompilerOp, Expression as E};
    let marker = E::String("@@slot@@".into());
    let m = cbor_of(&marker);
    let wrap: Vec<E> = vec![
        E::List(vec![marker.clone()]),
        E::List(vec![E::Number(1), marker.clone()]),
        E::Map(vec![(marker.clone(), E::None)]),
        E::Map(vec![(E::None, marker.clone())]),
        E::Tuple(Box::new((marker.clone(), E::None))),
        E::Struct(tir::StructExpr { constructor: 0, fields: vec![marker.clone()] }),
        E::EvalBuiltIn(Box::new(B::NoOp(marker.clone()))),
        E::EvalBuiltIn(Box::new(B::Add(marker.clone(), E::Number(1)))),
        E::EvalBuiltIn(Box::new(B::Sub(E::Number(1), marker.clone()))),
        E::EvalBuiltIn(Box::new(B::Negate(marker.clone()))),
        E::EvalBuiltIn(Box::new(B::Property(marker.clone(), E::Number(0)))),
        E::EvalBuiltIn(Box::new(B::Concat(marker.clone(), E::None))),
        E::EvalCoerce(Box::new(Coerce::IntoAssets(marker.clone()))),
        E::EvalCoerce(Box::new(Coerce::IntoDatum(marker.clone()))),
        E::EvalCompiler(Box::new(CompilerOp::BuildScriptAddress(marker.clone()))),
        E::Assets(vec![tir::AssetExpr { policy: E::None, asset_name: E::None, amount: marker.clone() }]),
    ];
    let wrappers = wrap
        .iter()
        .filter_map(|w| {
            let b = cbor_of(w);
            find(&b, &m).map(|i| (b[..i].to_vec(), b[i + m.len()..].to_vec()))
        })
        .collect();
    let mut slots = vec![];
    for t in slot_variants(base, &marker) {
        let b = encoding::to_bytes(&t).0;
        if let Some(i) = find(&b, &m) {
            slots.push((b[..i].to_vec(), b[i + m.len()..].to_vec(), m.clone()));
        }
    }
    BombParts { slots, wrappers }
}

/// `base` with the marker expression in each kind of expression slot a transaction has, one at a time.
fn slot_variants(base: &tir::Tx, marker: &tir::Expression) -> Vec<tir::Tx> {
    use tir::Expression as E;
    let mut v = vec![];
    let mut t = base.clone();
    t.fees = marker.clone();
    v.push(t);
    let mut t = base.clone();
    t.references = vec![marker.clone()];
    v.push(t);
    let mut t = base.clone();
    t.outputs.push(tir::Output { address: E::None, datum: marker.clone(), amount: E::None, optional: false });
    v.push(t);
    let mut t = base.clone();
    t.inputs.push(tir::Input { name: "slot".into(), utxos: E::None, redeemer: marker.clone() });
    v.push(t);
    let mut t = base.clone();
    t.mints.push(tir::Mint { amount: marker.clone(), redeemer: E::None });
    v.push(t);
    let mut t = base.clone();
    t.collateral.push(tir::Collateral { utxos: marker.clone() });
    v.push(t);
    let mut t = base.clone();
    t.signers = Some(tir::Signers { signers: vec![marker.clone()] });
    v.push(t);
    let mut t = base.clone();
    t.metadata.push(tir::Metadata { key: E::Number(1), value: marker.clone() });
    v.push(t);
    let mut t = base.clone();
    t.validity = Some(tir::Validity { since: marker.clone(), until: E::None });
    v.push(t);
    let mut t = base.clone();
    t.adhoc.push(tir::AdHocDirective { name: "slot".into(), data: std::collections::HashMap::from([("k".to_string(), marker.clone())]) });
    v.push(t);
    v
}

/// Nesting boundary: for every expression slot of a transaction and every IR wrapper, the deepest nesting the
/// real decoder still reads (scanned, not assumed) and the encodings around it; the judge asks the model
/// reader, with ciborium's recursion budget, about the same bytes.
pub fn run_nesting_boundary(out: &mut Emitter, thorough: bool) {
    let parts = typed_bomb_parts(&empty_tx());
    let names = ["fees", "reference", "output-datum", "input-redeemer", "mint-amount", "collateral", "signer", "metadata-value", "validity-since", "directive-value"];
    for (si, (head, tail, marker)) in parts.slots.iter().enumerate() {
        for (wi, (pre, post)) in parts.wrappers.iter().enumerate() {
            let build = |d: usize| -> Vec<u8> {
                let mut b = head.clone();
                for _ in 0..d {
                    b.extend_from_slice(pre);
                }
                b.extend_from_slice(marker);
                for _ in 0..d {
                    b.extend_from_slice(post);
                }
                b.extend_from_slice(tail);
                b
            };
            let decode = |d: usize| -> Result<bool, String> {
                let b = build(d);
                guarded(|| encoding::from_bytes(&b, TirVersion::V1Beta0)).map(|r| r.is_ok())
            };
            // scan: deepest accepted nesting, and whether acceptance is downward closed
            let mut deepest = 0usize;
            let mut monotone = true;
            let mut panics = vec![];
            let top = 140usize;
            for d in 0..=top {
                match decode(d) {
                    Ok(true) => {
                        if d > deepest + 1 {
                            monotone = false;
                        }
                        deepest = d;
                    }
                    Ok(false) => {}
                    Err(site) => panics.push(json!({"depth": d, "site": site})),
                }
            }
            let mut depths = vec![0usize, 1, deepest.saturating_sub(1), deepest, deepest + 1, deepest + 2];
            if thorough {
                depths.extend([2, 3, deepest / 2, deepest + 3, top]);
            }
            depths.sort();
            depths.dedup();
            for d in depths {
                let b = build(d);
                out.case("nesting-boundary", || {
                    json!({"probe": "nest", "slot": names.get(si).copied().unwrap_or("?"), "wrapper": wi, "depth": d, "bytes": hx(&b),
                           "deepest_accepted": deepest, "monotone": monotone, "panics": panics,
                           "obs": match decode(d) { Ok(ok) => json!({"ok": ok}), Err(site) => json!({"panic": site}) }})
                });
            }
        }
    }
}

/// Child of the garbage probe: feeds malformed byte strings to `from_bytes`.
pub fn run_garbage_child(opts: &Opts) {
    // decode on a thread with the default thread stack (2 MiB, what a server's worker threads get), not on the
    // main thread's 8 MiB
    let o = Opts { ..opts.clone() };
    let h = std::thread::Builder::new().stack_size(2 << 20).spawn(move || garbage_child_body(&o)).expect("spawn");
    if let Ok(line) = h.join() {
        println!("{line}");
    }
}

fn garbage_child_body(opts: &Opts) -> String {
    let mut r = Rng::new(opts.seed ^ 0x6a7b);
    let mut g = Gen::new(Rng::new(opts.seed ^ 0x1));
    let (mut ok, mut err, mut panics) = (0u64, 0u64, vec![]);
    let valid: Vec<Vec<u8>> = (0..8)
        .map(|_| {
            let c = crate::stages::make_case(&mut g, 3);
            encoding::to_bytes(&c.tx).0
        })
        .collect();
    let bombs = typed_bomb_parts(&valid_tx_for_bombs(&mut g));
    // inflated-count sweep: a real encoding that holds every kind of container (a directive with three fields
    // among them); at every offset that reads as a short array or map header in turn, the header announces a
    // huge number of entries instead (whoever pre-allocates from the announced count must cap it)
    {
        let mut base = valid_tx_for_bombs(&mut g);
        base.adhoc.push(adhoc(
            "withdrawal",
            vec![("credential", tir::Expression::Bytes(vec![1; 28])), ("amount", tir::Expression::Number(5)), ("redeemer", tir::Expression::None)],
        ));
        base.metadata.push(tir::Metadata { key: tir::Expression::Number(1), value: tir::Expression::String("m".into()) });
        let enc = encoding::to_bytes(&base).0;
        let counts: [u64; 3] = [1 << 61, u64::MAX, 1 << 63];
        let which = (opts.seed % 3) as usize;
        for at in 0..enc.len() {
            let b = enc[at];
            let major = b >> 5;
            if (major == 4 || major == 5) && (b & 31) < 24 {
                let mut v = enc[..at].to_vec();
                v.push((major << 5) | 27);
                v.extend_from_slice(&counts[which].to_be_bytes());
                v.extend_from_slice(&enc[at + 1..]);
                match guarded(|| encoding::from_bytes(&v, TirVersion::V1Beta0)) {
                    Ok(Ok(_)) => ok += 1,
                    Ok(Err(_)) => err += 1,
                    Err(site) => panics.push(site),
                }
            }
        }
    }
    for k in 0..opts.n {
        let bytes: Vec<u8> = match k % 7 {
            0 => {
                let l = r.below(200) as usize;
                r.bytes(l)
            }
            6 => {
                // typed nesting bomb: a well-formed encoding whose expression slot holds one IR wrapper nested
                // `depth` times (the decoder keeps descending, unlike with untyped nesting)
                let (head, tail, marker) = r.pick(&bombs.slots).clone();
                let (pre, post) = r.pick(&bombs.wrappers).clone();
                let depth = *r.pick(&[10usize, 60, 200, 1000, 5000, 20_000, 100_000]);
                let mut b = head;
                for _ in 0..depth {
                    b.extend_from_slice(&pre);
                }
                b.extend_from_slice(&marker);
                for _ in 0..depth {
                    b.extend_from_slice(&post);
                }
                b.extend_from_slice(&tail);
                b
            }
            1 => {
                // bit flips of a valid encoding
                let mut b = r.pick(&valid).clone();
                for _ in 0..(1 + r.below(4)) {
                    if !b.is_empty() {
                        let i = r.below(b.len() as u64) as usize;
                        b[i] ^= 1 << r.below(8);
                    }
                }
                b
            }
            2 => {
                let b = r.pick(&valid).clone();
                let l = r.below(b.len() as u64 + 1) as usize;
                b[..l].to_vec()
            }
            3 => {
                // nesting bomb: arrays / maps / tags nested deeply
                let depth = *r.pick(&[100usize, 1000, 10_000, 100_000]);
                let byte = *r.pick(&[0x81u8, 0xa1, 0xc1, 0x9f, 0xbf, 0xd8]);
                vec![byte; depth]
            }
            4 => {
                // huge length prefixes
                let mut b = vec![*r.pick(&[0x5bu8, 0x7b, 0x9b, 0xbb])];
                b.extend(vec![0xff; 8]);
                b
            }
            _ => {
                // a valid encoding with a spliced random chunk
                let mut b = r.pick(&valid).clone();
                let at = r.below(b.len() as u64 + 1) as usize;
                let l = r.below(9) as usize;
                let chunk = r.bytes(l);
                b.splice(at..at, chunk);
                b
            }
        };
        match guarded(|| encoding::from_bytes(&bytes, TirVersion::V1Beta0)) {
            Ok(Ok(_)) => ok += 1,
            Ok(Err(_)) => err += 1,
            Err(site) => panics.push(site),
        }
    }
    json!({"ok": ok, "err": err, "panics": panics}).to_string()
}

fn tx3c_bin() -> Option<String> {
    std::env::var("TX3C_BIN").ok().filter(|p| std::path::Path::new(p).exists())
}

/// Runs `tx3c build <src> --emit tii` in a fresh process; returns the file's text.
pub fn emit_tii(src: &str, tag: &str) -> Result<String, String> {
    emit_tii_with(src, tag, &[], &[])
}

/// The same with `--profile <name>` flags and `--profile-env-file <name>:<file>` flags (the files are written
/// from the given texts).
pub fn emit_tii_with(src: &str, tag: &str, profiles: &[String], env_files: &[(String, String)]) -> Result<String, String> {
    emit_tii_over(src, tag, profiles, env_files, None)
}

/// The same onto an output path that already holds `stale` (what an earlier build, of this or of a larger program, left
/// there): the file written must not depend on it.
pub fn emit_tii_over(src: &str, tag: &str, profiles: &[String], env_files: &[(String, String)], stale: Option<&[u8]>) -> Result<String, String> {
    let bin = tx3c_bin().ok_or("no tx3c binary")?;
    let dir = std::env::temp_dir().join(format!("tx3verif-{}-{}", std::process::id(), tag));
    std::fs::create_dir_all(&dir).map_err(|e| e.to_string())?;
    let src_path = dir.join("main.tx3");
    let out_path = dir.join("main.tii");
    std::fs::write(&src_path, src).map_err(|e| e.to_string())?;
    if let Some(old) = stale {
        std::fs::write(&out_path, old).map_err(|e| e.to_string())?;
    }
    let mut extra: Vec<String> = vec![];
    for p in profiles {
        extra.push("--profile".into());
        extra.push(p.clone());
    }
    for (k, (p, text)) in env_files.iter().enumerate() {
        let f = dir.join(format!("env-{k}.env"));
        std::fs::write(&f, text).map_err(|e| e.to_string())?;
        extra.push("--profile-env-file".into());
        extra.push(format!("{p}:{}", f.to_str().unwrap()));
    }
    let st = std::process::Command::new(bin)
        .args(["build", src_path.to_str().unwrap(), "--emit", "tii", "--output", out_path.to_str().unwrap()])
        .args(&extra)
        .stdout(std::process::Stdio::null())
        .stderr(std::process::Stdio::piped())
        .output()
        .map_err(|e| e.to_string())?;
    let res = if st.status.success() {
        std::fs::read_to_string(&out_path).map_err(|e| e.to_string())
    } else {
        Err(format!("tx3c failed: {}", String::from_utf8_lossy(&st.stderr).chars().take(300).collect::<String>()))
    };
    let _ = std::fs::remove_dir_all(&dir);
    res
}

pub fn run_c18(opts: &Opts, out: &mut Emitter) {
    let mut r = Rng::new(opts.seed ^ 0x1818);
    let mut sources = example_sources();
    sources.extend(generated_sources(&mut r, opts.n));
    let reps = 20;
    for (k, (name, src)) in sources.iter().enumerate() {
        let first = lower_all(src);
        if first.is_empty() {
            continue;
        }
        out.case(if name.starts_with("gen") { "generated" } else { "example" }, || {
            // in-process: fresh parse/analyse/lower/encode each time
            let mut distinct: std::collections::BTreeSet<String> = Default::default();
            for _ in 0..reps {
                let all = lower_all(src);
                let enc: Vec<String> = all.iter().map(|(n, t)| format!("{n}:{}", hx(&encoding::to_bytes(t).0))).collect();
                distinct.insert(enc.join("|"));
            }
            // fresh processes (new hash seeds): this binary, child mode
            let mut cross: std::collections::BTreeSet<String> = Default::default();
            let exe = std::env::current_exe().unwrap();
            let procs = if k % 4 == 0 || opts.thorough || name.ends_with("-alike") || name.ends_with("-folded") { 3 } else { 0 };
            let tmp = std::env::temp_dir().join(format!("tx3verif-{}-{k}.tx3", std::process::id()));
            if procs > 0 {
                let _ = std::fs::write(&tmp, src);
            }
            for _ in 0..procs {
                if let Ok(o) = std::process::Command::new(&exe).args(["C18-child", "--replay", tmp.to_str().unwrap()]).output() {
                    cross.insert(String::from_utf8_lossy(&o.stdout).trim().to_string());
                }
            }
            let _ = std::fs::remove_file(&tmp);
            // the TII file from the real tx3c binary, fresh process each time
            let mut tii: std::collections::BTreeSet<String> = Default::default();
            let mut tii_err = Value::Null;
            if tx3c_bin().is_some() && (k % 4 == 0 || opts.thorough) {
                for j in 0..3 {
                    // a fresh path, a path holding a much longer file, a path holding a shorter one
                    let stale: Option<Vec<u8>> = match j {
                        0 => None,
                        1 => Some(format!("{{\n  \"stale\": \"{}\"\n}}\n", "x".repeat(300_000)).into_bytes()),
                        _ => Some(b"{}".to_vec()),
                    };
                    match emit_tii_over(src, &format!("{k}-{j}"), &[], &[], stale.as_deref()) {
                        Ok(t) => {
                            tii.insert(t);
                        }
                        Err(e) => tii_err = json!(e),
                    }
                }
            }
            // the same with profiles on the command line: 1-3 forced profiles and 1-2 env files, their names from a
            // small pool in which some differ only by case; every command line in six fresh processes
            let mut tii_prof_distinct = 0usize;
            let mut tii_prof_runs = 0usize;
            if tx3c_bin().is_some() && (k % 4 == 0 || opts.thorough) {
                let mut pr = Rng::new(opts.seed ^ 0x7117 ^ (k as u64) << 8);
                let pool = ["preview", "Preview", "PREVIEW", "mainnet", "Mainnet", "local", "Local"];
                for line in 0..2 {
                    let profiles: Vec<String> = (0..1 + pr.below(3)).map(|_| pr.pick(&pool).to_string()).collect();
                    let env_files: Vec<(String, String)> = (0..1 + pr.below(2))
                        .map(|j| (pr.pick(&pool).to_string(), format!("SENDER=addr_test1vqx{j}\nRECEIVER=addr_test1vqy{j}\nFEECAP={j}\nA=addr_test1a{j}\n")))
                        .collect();
                    let mut seen: std::collections::BTreeSet<String> = Default::default();
                    for j in 0..6 {
                        match emit_tii_with(src, &format!("{k}-p{line}-{j}"), &profiles, &env_files) {
                            Ok(t) => {
                                seen.insert(t);
                            }
                            Err(e) => tii_err = json!(e),
                        }
                    }
                    tii_prof_runs += 6;
                    tii_prof_distinct = tii_prof_distinct.max(seen.len());
                }
            }
            let canonical = distinct.iter().next().cloned().unwrap_or_default();
            json!({"probe": "determinism", "origin": name, "txs": first.iter().map(|(n, t)| json!([n, tx_json(t)])).collect::<Vec<_>>(),
                   "obs": {"in_process_runs": reps, "in_process_distinct": distinct.len(), "encoding": canonical,
                           "cross_process_runs": procs, "cross_process_distinct": cross.len(),
                           "cross_matches_in_process": cross.iter().all(|c| *c == distinct.iter().next().cloned().unwrap_or_default()),
                           "tii_runs": tii.len().max(if tii_err.is_null() { 0 } else { 1 }), "tii_distinct": tii.len(), "tii_error": tii_err,
                           "tii_profile_runs": tii_prof_runs, "tii_profile_distinct": tii_prof_distinct}})
        });
    }
}

pub fn run_c18_child(opts: &Opts) {
    let Some(path) = &opts.replay else { return };
    let src = std::fs::read_to_string(path).unwrap_or_default();
    let all = lower_all(&src);
    let enc: Vec<String> = all.iter().map(|(n, t)| format!("{n}:{}", hx(&encoding::to_bytes(t).0))).collect();
    println!("{}", enc.join("|"));
}

// ---------------------------------------------------------------------------
// C17 — the published interface agrees with the IR it ships

fn cased(r: &mut Rng, base: &str) -> String {
    match r.below(4) {
        0 => base.to_lowercase(),
        1 => base.to_uppercase(),
        2 => {
            let mut c = base.chars();
            match c.next() {
                Some(f) => f.to_uppercase().collect::<String>() + c.as_str(),
                None => String::new(),
            }
        }
        _ => base
            .chars()
            .enumerate()
            .map(|(i, ch)| if i % 2 == 0 { ch.to_ascii_uppercase() } else { ch.to_ascii_lowercase() })
            .collect(),
    }
}

pub struct IfaceTx {
    pub name: String,
    pub params: Vec<String>,
    pub used: Vec<String>,
}

pub struct IfaceProgram {
    pub src: String,
    pub parties: Vec<String>,
    pub env: Vec<String>,
    pub txs: Vec<IfaceTx>,
}

/// One to three transactions over shared parties and (two times out of three) an environment; every
/// transaction has its own parameters and decides on its own whether it reads the environment.
pub fn interface_program(r: &mut Rng, collide: bool) -> IfaceProgram {
    interface_program_with(r, collide, None)
}

/// `special`: the name of the single-use parameter of the first transaction (a name the source of the crates itself
/// mentions, e.g. that of a built-in symbol).
pub fn interface_program_with(r: &mut Rng, collide: bool, special: Option<&str>) -> IfaceProgram {
    let sender = cased(r, "sender");
    let receiver = cased(r, "receiver");
    let envv = cased(r, "feecap");
    let envb = cased(r, "tokenpolicy");
    let with_env = r.chance(2, 3);
    let mut src = String::new();
    let mut env = vec![];
    if with_env {
        src.push_str(&format!("env {{\n    {envv}: Int,\n    {envb}: Bytes,\n}}\n\n"));
        env = vec![envv.clone(), envb.clone()];
    }
    src.push_str(&format!("party {sender};\nparty {receiver};\n\n"));
    src.push_str("type Reg {\n    entries: Map<Int, Int>,\n    items: List<Int>,\n    n: Int,\n}\n\n");
    let ntx = 1 + r.below(3) as usize;
    let mut txs = vec![];
    // transaction names that differ only in case are different transactions
    let names: Vec<&str> = match r.below(6) {
        0 => vec!["Pay", "pay", "PAY"],
        1 => vec!["Pay", "Refund", "refund"],
        // the very same name twice
        2 => vec!["Pay", "Pay", "Refund"],
        _ => vec!["Pay", "Refund", "Sweep"],
    };
    for (k, name) in names.iter().take(ntx).enumerate() {
        let qty = cased(r, "quantity");
        let extra = cased(r, "bonus");
        let unused = cased(r, "unusedparam");
        // one parameter that only this transaction has (and uses), so that no two transactions of a program
        // require the same set
        let own = cased(r, &format!("only{k}"));
        let mut params = vec![qty.clone(), extra.clone(), own.clone()];
        if r.chance(1, 2) {
            params.push(unused.clone());
        }
        // one parameter that is used exactly once, at a position that rotates over every place of a
        // transaction body an expression can stand in (whatever walks the IR for its parameters has to reach it)
        let at = match special {
            Some(n) if k == 0 => n.to_string(),
            _ => cased(r, &format!("at{k}")),
        };
        params.push(at.clone());
        let pos = r.below(23);
        let reg = |entries: &str, items: &str, n: &str| format!("        datum: Reg {{ entries: {{{entries}}}, items: [{items}], n: {n}, }},\n");
        let (datum, blocks): (String, String) = match pos {
            0 => (reg(&format!("{at}: 1,"), "1,", "1"), String::new()),
            1 => (reg(&format!("1: {at},"), "1,", "1"), String::new()),
            2 => (reg("1: 1,", &format!("{at},"), "1"), String::new()),
            3 => (reg("1: 1,", "1,", &at), String::new()),
            4 => (String::new(), format!("    metadata {{\n        1: {at},\n    }}\n")),
            5 => (String::new(), format!("    metadata {{\n        {at}: 1,\n    }}\n")),
            6 => (String::new(), format!("    validity {{\n        since_slot: {at},\n    }}\n")),
            7 => (String::new(), format!("    validity {{\n        until_slot: {at},\n    }}\n")),
            8 => (String::new(), format!("    mint {{\n        amount: AnyAsset(0xabcdef12, \"AT\", {at}),\n        redeemer: (),\n    }}\n")),
            9 => (String::new(), format!("    mint {{\n        amount: AnyAsset(0xabcdef12, \"AT\", 1),\n        redeemer: {at},\n    }}\n")),
            10 => (String::new(), format!("    cardano::withdrawal {{\n        from: {sender},\n        amount: {at},\n        redeemer: (),\n    }}\n")),
            11 => (String::new(), format!("    cardano::withdrawal {{\n        from: {sender},\n        amount: 0,\n        redeemer: {at},\n    }}\n")),
            12 => (String::new(), format!("    output {{\n        to: {receiver},\n        amount: Ada({at}),\n    }}\n")),
            // one metadata label written twice, the parameter in the earlier / the later entry
            14 => (String::new(), format!("    metadata {{\n        674: {at},\n        674: 2,\n    }}\n")),
            15 => (String::new(), format!("    metadata {{\n        674: 2,\n        674: {at},\n    }}\n")),
            // a second input, pinned by a reference, that still says what it has to hold / how it is spent
            16 => (String::new(), format!("    input pinned {{\n        from: {sender},\n        ref: 0x{}#1,\n        min_amount: Ada({at}),\n    }}\n", "ab".repeat(32))),
            17 => (String::new(), format!("    input pinned {{\n        from: {sender},\n        ref: 0x{}#1,\n        redeemer: {at},\n    }}\n", "ab".repeat(32))),
            18 => (String::new(), format!("    input pinned {{\n        ref: 0x{}#1,\n        min_amount: Ada({at}) + fees,\n        redeemer: (),\n    }}\n", "ab".repeat(32))),
            19 => (String::new(), format!("    collateral {{\n        from: {sender},\n        min_amount: Ada({at}),\n    }}\n")),
            20 => (String::new(), format!("    burn {{\n        amount: AnyAsset(0xabcdef12, \"AT\", {at}),\n        redeemer: (),\n    }}\n")),
            21 => (String::new(), format!("    cardano::treasury_donation {{\n        coin: {at},\n    }}\n")),
            22 => (String::new(), format!("    input second {{\n        from: {receiver},\n        min_amount: Ada({at}),\n    }}\n")),
            _ => (reg(&format!("1: 1, {at}: 2,"), "1,", "1"), String::new()),
        };
        if collide && k == 0 {
            // a second parameter equal to the first up to case
            let other = if qty == qty.to_lowercase() { qty.to_uppercase() } else { qty.to_lowercase() };
            params.push(other);
        }
        // the first transaction of a program with an environment reads it more often than not, so that
        // "an earlier one does, the last one does not" is a common shape
        let reads_env = with_env && (if k == 0 { r.chance(3, 4) } else { r.chance(1, 2) });
        let plist = params.iter().map(|p| format!("{p}: Int")).collect::<Vec<_>>().join(", ");
        let amount = if reads_env { format!("Ada({qty}) + Ada({extra}) + Ada({own}) + Ada({envv})") } else { format!("Ada({qty}) + Ada({extra}) + Ada({own})") };
        let mint = if reads_env {
            format!("    mint {{\n        amount: AnyAsset({envb}, \"TK\", 1),\n        redeemer: (),\n    }}\n")
        } else {
            String::new()
        };
        src.push_str(&format!(
            "tx {name}({plist}) {{\n    input source {{\n        from: {sender},\n        min_amount: {amount} + fees,\n    }}\n{mint}{blocks}    output {{\n        to: {receiver},\n        amount: {amount},\n    }}\n    output {{\n        to: {sender},\n        amount: source - {amount} - fees,\n{datum}    }}\n}}\n\n"
        ));
        let mut used = vec![qty, extra, own, at, sender.clone(), receiver.clone()];
        if reads_env {
            used.push(envv.clone());
            used.push(envb.clone());
        }
        txs.push(IfaceTx { name: name.to_string(), params, used });
    }
    IfaceProgram { src, parties: vec![sender, receiver], env, txs }
}

pub fn run_c17(opts: &Opts, out: &mut Emitter) {
    let mut r = Rng::new(opts.seed ^ 0x1717);
    let mut programs: Vec<(String, IfaceProgram)> = vec![];
    // corpus: the reproduced defect
    programs.push((
        "corpus".into(),
        IfaceProgram {
            src: "party Sender;\nparty Receiver;\n\ntx t(Qty: Int) {\n    input source {\n        from: Sender,\n        min_amount: Ada(Qty) + fees,\n    }\n    output {\n        to: Receiver,\n        amount: Ada(Qty),\n    }\n    output {\n        to: Sender,\n        amount: source - Ada(Qty) - fees,\n    }\n}\n".into(),
            parties: vec!["Sender".into(), "Receiver".into()],
            env: vec![],
            txs: vec![IfaceTx { name: "t".into(), params: vec!["Qty".into()], used: vec!["Qty".into(), "Sender".into(), "Receiver".into()] }],
        },
    ));
    // names the source of the crates mentions (built-in symbols among them) as parameter names: kept when the front end
    // accepts the program
    let pool: Vec<String> = crate::common::magic_names()
        .into_iter()
        .filter(|n| n.chars().next().map(|c| c.is_ascii_lowercase()).unwrap_or(false) && n.chars().all(|c| c.is_ascii_lowercase() || c == '_'))
        .collect();
    let mut taken = 0usize;
    for k in 0..opts.n {
        if k % 3 == 2 && !pool.is_empty() {
            // "fees" and the other built-in names first, then the rest of the pool in rotation
            let first = ["fees", "min_utxo", "tip_slot", "slot_to_time", "time_to_slot", "ada"];
            let name = if taken < first.len() { first[taken].to_string() } else { pool[(taken * 7) % pool.len()].clone() };
            taken += 1;
            // names the generated program itself gives to something else (an input block shadows a parameter of its
            // name: the body would not be using the parameter)
            let own = ["source", "collateral", "sender", "receiver", "feecap", "tokenpolicy", "quantity", "bonus", "unusedparam", "reg", "entries", "items"];
            // words the grammar itself writes (`true` in an expression is the literal, not a parameter of that name):
            // read from tx3.pest as it stands
            let grammar_words: Vec<String> = std::fs::read_to_string(std::env::var("TX3_REPO").unwrap_or_else(|_| "/repo".to_string()) + "/crates/tx3-lang/src/tx3.pest")
                .unwrap_or_default()
                .split('"')
                .filter(|w| !w.is_empty() && w.chars().all(|c| c.is_ascii_alphabetic() || c == '_'))
                .map(|w| w.to_string())
                .collect();
            if own.contains(&name.as_str()) || name.starts_with("only") || name.starts_with("at") || grammar_words.contains(&name) {
                programs.push(("generated".into(), interface_program(&mut r, false)));
                continue;
            }
            let p = interface_program_with(&mut r, false, Some(&name));
            if !lower_all(&p.src).is_empty() {
                programs.push(("named".into(), p));
                continue;
            }
        }
        programs.push((if k % 6 == 5 { "collide".into() } else { "generated".into() }, interface_program(&mut r, k % 6 == 5)));
    }
    for (k, (gen, p)) in programs.iter().enumerate() {
        out.case(gen, || {
            let tii = emit_tii(&p.src, &format!("c17-{k}"));
            let lowered = lower_all(&p.src);
            let mut txs = vec![];
            let mut tii_json = Value::Null;
            let mut err = Value::Null;
            match tii {
                Ok(text) => {
                    let v: Value = serde_json::from_str(&text).unwrap_or(Value::Null);
                    if let Some(tmap) = v.get("transactions").and_then(|t| t.as_object()) {
                        for (name, t) in tmap {
                            let content = t["tir"]["content"].as_str().unwrap_or("");
                            let version = t["tir"]["version"].as_str().unwrap_or("");
                            let decoded = hex::decode(content).ok().and_then(|b| {
                                TirVersion::try_from(version).ok().and_then(|ver| guarded(|| encoding::from_bytes(&b, ver)).ok().and_then(|r| r.ok()))
                            });
                            let (ir_params, same_as_lower) = match &decoded {
                                Some(AnyTir::V1Beta0(d)) => {
                                    let ps: Vec<String> = d.params().keys().cloned().collect();
                                    let same = lowered.iter().find(|(n, _)| n == name).map(|(_, l)| canon(&tx_json(l)) == canon(&tx_json(d)));
                                    (Some(ps), same)
                                }
                                None => (None, None),
                            };
                            let keys = |x: &Value| -> Vec<String> {
                                x.get("properties").and_then(|p| p.as_object()).map(|o| o.keys().cloned().collect()).unwrap_or_default()
                            };
                            // a client that supplies precisely what the file declares: the transaction's parameters and the
                            // parties as arguments, the environment entries under `env`, through the server's own request
                            // reader; afterwards the template must be closed
                            let request = {
                                let val = |k: &str| -> Value {
                                    if k == "tokenpolicy" { json!("0xabcdef12") } else { json!(1) }
                                };
                                let mut args = serde_json::Map::new();
                                for k in keys(&t["params"]) {
                                    args.insert(k.clone(), val(&k));
                                }
                                if let Some(ps) = v.get("parties").and_then(|p| p.as_object()) {
                                    for k in ps.keys() {
                                        args.insert(k.clone(), json!(hx(&[0x60; 29])));
                                    }
                                }
                                let mut env = serde_json::Map::new();
                                if let Some(es) = v.get("environment").and_then(|e| e.get("properties")).and_then(|p| p.as_object()) {
                                    for k in es.keys() {
                                        env.insert(k.clone(), val(k));
                                    }
                                }
                                let req = json!({"tir": t["tir"].clone(), "args": args, "env": env});
                                match serde_json::from_value::<tx3_resolver::trp::ResolveParams>(req) {
                                    Err(e) => json!({"bad_request": e.to_string().chars().take(80).collect::<String>()}),
                                    Ok(p) => match guarded(|| tx3_resolver::trp::parse_resolve_request(p)) {
                                        Ok(Ok((tir_any, m))) => {
                                            let kept: Vec<String> = m.keys().cloned().collect();
                                            let remaining: Value = match guarded(|| tx3_tir::reduce::apply_args(tir_any, &m)) {
                                                Ok(Ok(applied)) => json!(tx3_tir::reduce::find_params(&applied).keys().cloned().collect::<Vec<_>>()),
                                                Ok(Err(e)) => json!({"err": e.to_string().chars().take(60).collect::<String>()}),
                                                Err(site) => json!({"panic": site}),
                                            };
                                            json!({"kept": kept, "remaining": remaining})
                                        }
                                        Ok(Err(e)) => json!({"err": e.to_string().chars().take(80).collect::<String>()}),
                                        Err(site) => json!({"panic": site}),
                                    },
                                }
                            };
                            txs.push(json!({"name": name, "params": keys(&t["params"]), "ir_params": ir_params, "decodes_to_lowered": same_as_lower, "request": request}));
                        }
                    }
                    tii_json = json!({
                        "parties": v.get("parties").and_then(|p| p.as_object()).map(|o| o.keys().cloned().collect::<Vec<_>>()).unwrap_or_default(),
                        "environment": v.get("environment").and_then(|e| e.get("properties")).and_then(|p| p.as_object()).map(|o| o.keys().cloned().collect::<Vec<_>>()).unwrap_or_default(),
                    });
                }
                Err(e) => err = json!(e),
            }
            json!({"probe": "tii", "src": p.src, "declared": {"parties": p.parties, "env": p.env, "txs": p.txs.iter().map(|t| json!({"name": t.name, "params": t.params, "used": t.used})).collect::<Vec<_>>()},
                   "obs": {"tii": tii_json, "txs": txs, "error": err, "lowered_txs": lowered.len()}})
        });
    }
}
