//! C01 probe: generated core-fragment programs (own syntax tree) → printed with two layouts →
//! the real parse / analyze / lower / resolve_tx (apply, reduce, input selection, compile) →
//! observation: lowered IR, the constant IR handed to the compiler, fee, transaction bytes.
//! The Lean side evaluates its own big-step semantics on the *tree* and compares.

use crate::common::*;
use crate::langgen::*;
use crate::resolvep::Tracing;
use crate::store::{self, MemStore};
use crate::Opts;
use serde_json::{json, Value};
use std::collections::BTreeMap;
use tx3_tir::model::assets::CanonicalAssets;
use tx3_tir::model::core::{Utxo, UtxoRef};
use tx3_tir::model::v1beta0 as tir;
use tx3_tir::reduce::ArgValue;

pub const POLICY_TOK: [u8; 28] = [0x3c; 28];
pub const POLICY_ANY: [u8; 28] = [0x4d; 28];

#[derive(Clone, Debug)]
pub struct UtxoSpec {
    pub party: String,
    pub txid: Vec<u8>,
    pub index: u32,
    pub lovelace: i128,
    pub tokens: Vec<(Vec<u8>, Vec<u8>, i128)>,
    /// datum of record type R: (counter, label, extra)
    pub datum: Option<(i128, Vec<u8>, i128)>,
}

#[derive(Clone, Debug)]
pub struct World {
    pub mainnet: bool,
    pub parties: Vec<(String, Vec<u8>)>,
    pub env_ints: Vec<(String, i128)>,
    pub env_bytes: Vec<(String, Vec<u8>)>,
    pub int_args: Vec<(String, i128)>,
    pub bytes_args: Vec<(String, Vec<u8>)>,
    pub addr_args: Vec<(String, Vec<u8>)>,
    pub utxos: Vec<UtxoSpec>,
}

fn addr(mainnet: bool, fill: u8) -> Vec<u8> {
    let mut a = vec![if mainnet { 0x61 } else { 0x60 }];
    a.extend(std::iter::repeat(fill).take(28));
    a
}

struct G<'a> {
    r: &'a mut Rng,
    int_params: Vec<String>,
    pos_params: Vec<String>,
    bytes_params: Vec<String>,
    int_env: Vec<String>,
    bytes_env: Vec<String>,
    int_locals: Vec<String>,
    datum_inputs: Vec<String>,
    tokens: Vec<String>,
}

impl<'a> G<'a> {
    fn int_atom(&mut self) -> E {
        let mut opts: Vec<E> = vec![E::Num(self.r.range(0, 100)), E::Num(*self.r.pick(&[0, 1, -1, 7, 1000, -250, 4_000_000_000, i64::MAX, i64::MIN + 1]))];
        for p in self.int_params.iter().chain(self.int_env.iter()).chain(self.int_locals.iter()) {
            opts.push(E::Id(p.clone()));
        }
        for i in &self.datum_inputs {
            opts.push(E::Prop(Box::new(E::Id(i.clone())), "counter".into()));
            opts.push(E::Prop(Box::new(E::Id(i.clone())), "extra".into()));
        }
        if self.r.chance(1, 12) {
            // the chain's clock: instants around the chain point, on and off slot boundaries, before and after it
            let t0 = crate::store::CURSOR_TIME as i64;
            let s0 = crate::store::CURSOR_SLOT as i64;
            return match self.r.below(3) {
                0 => E::Call("time_to_slot".into(), vec![E::Num(t0 + *self.r.pick(&[-2500i64, -1000, -1, 0, 1, 592, 999, 1000, 1999, 123_456]))]),
                1 => E::Call("slot_to_time".into(), vec![E::Num(s0 + *self.r.pick(&[-3i64, 0, 1, 600]))]),
                _ => E::Call("tip_slot".into(), vec![]),
            };
        }
        if self.r.chance(1, 10) {
            let n = 1 + self.r.below(3) as usize;
            let xs: Vec<E> = (0..n).map(|_| E::Num(self.r.range(-9, 99))).collect();
            let k = self.r.below(n as u64) as i64;
            // mostly an element the list has; sometimes one it has not: one past the end, a negative one, and
            // positions a multiple of 2^64 away from a real one (written as sums: a literal holds 64 bits)
            let two64_plus = |j: i64| E::Add(Box::new(E::Num(i64::MAX)), Box::new(E::Add(Box::new(E::Num(i64::MAX)), Box::new(E::Num(2 + j)))));
            let ix = match self.r.below(8) {
                0 => E::Num(n as i64),
                1 => E::Num(-1 - k),
                2 => two64_plus(k),
                3 => E::Neg(Box::new(two64_plus(0))),
                _ => E::Num(k),
            };
            return E::Index(Box::new(E::List(xs)), Box::new(ix));
        }
        self.r.pick(&opts).clone()
    }

    /// Integer expression; `depth` bounds nesting.
    fn int_expr(&mut self, depth: usize) -> E {
        if depth == 0 || self.r.chance(2, 5) {
            return self.int_atom();
        }
        match self.r.below(8) {
            0..=2 => E::Add(Box::new(self.int_expr(depth - 1)), Box::new(self.int_expr(depth - 1))),
            3..=5 => E::Sub(Box::new(self.int_expr(depth - 1)), Box::new(self.int_expr(depth - 1))),
            6 => E::Neg(Box::new(self.int_expr(depth - 1))),
            _ => {
                // the chain the property names: a - b - c
                let a = self.int_atom();
                let b = self.int_atom();
                let c = self.int_atom();
                E::Sub(Box::new(E::Sub(Box::new(a), Box::new(b))), Box::new(c))
            }
        }
    }

    /// Small positive integer expression, for amounts.
    fn pos_int(&mut self, depth: usize) -> E {
        let mut atoms: Vec<E> = vec![E::Num(self.r.range(1, 2000))];
        for p in &self.pos_params {
            atoms.push(E::Id(p.clone()));
        }
        let a = self.r.pick(&atoms).clone();
        if depth == 0 || self.r.chance(1, 2) {
            return a;
        }
        match self.r.below(4) {
            0..=1 => E::Add(Box::new(a), Box::new(self.pos_int(depth - 1))),
            2 => {
                // (a + b) - a
                let b = self.pos_int(depth - 1);
                E::Sub(Box::new(E::Add(Box::new(a.clone()), Box::new(b))), Box::new(a))
            }
            _ => {
                // a + b - c with c small literal below a's lower bound 1: keep positive by adding first
                let b = E::Num(self.r.range(50, 500));
                let c = E::Num(self.r.range(1, 49));
                E::Sub(Box::new(E::Add(Box::new(a), Box::new(b))), Box::new(c))
            }
        }
    }

    fn bytes_expr(&mut self, depth: usize) -> E {
        let hexes = ["ab", "00ff", "cafe01", "", "0102030405060708090a"];
        let strs = ["hi", "TK", "label", "é✓", ""];
        let mut atoms: Vec<E> = vec![];
        let h = *self.r.pick(&hexes);
        if !h.is_empty() {
            atoms.push(E::Hex(h.to_string()));
        }
        atoms.push(E::Str(self.r.pick(&strs).to_string()));
        for p in self.bytes_params.iter().chain(self.bytes_env.iter()) {
            atoms.push(E::Id(p.clone()));
        }
        for i in &self.datum_inputs {
            atoms.push(E::Prop(Box::new(E::Id(i.clone())), "label".into()));
        }
        if depth > 0 && self.r.chance(1, 4) {
            // concat of two literals of the same kind, or with a bytes-typed name on the left
            return match self.r.below(3) {
                0 => E::Concat(Box::new(E::Hex("0a0b".into())), Box::new(E::Hex(self.r.pick(&["ff", "1234"]).to_string()))),
                1 => E::Concat(Box::new(E::Str("ab".into())), Box::new(E::Str(self.r.pick(&strs).to_string()))),
                _ => E::Concat(Box::new(E::Str("n=".into())), Box::new(E::Str("7".into()))),
            };
        }
        self.r.pick(&atoms).clone()
    }

    fn asset_atom(&mut self) -> E {
        let n = self.pos_int(1);
        match self.r.below(6) {
            0..=2 => E::Call("Ada".into(), vec![n]),
            3 if !self.tokens.is_empty() => E::Call(self.r.pick(&self.tokens).clone(), vec![n]),
            // the same class written through the policy definition: `AnyAsset(Pol, "TK", n)`
            4 if !self.tokens.is_empty() => {
                if self.r.chance(1, 2) {
                    E::Call(self.r.pick(&self.tokens).clone(), vec![n])
                } else {
                    E::AnyAsset(Box::new(E::Id("Pol".into())), Box::new(E::Str("TK".into())), Box::new(n))
                }
            }
            _ => E::AnyAsset(Box::new(E::Hex(hx(&POLICY_ANY))), Box::new(if self.r.chance(1, 2) { E::Str("ANY".into()) } else { E::Hex("414e59".into()) }), Box::new(n)),
        }
    }

    /// `X(x) - X(y) + X(z)` with x < y < z: the value passes below zero on the way to a positive amount (one
    /// class alone, or next to a class that stays positive).
    fn dipping_assets(&mut self) -> E {
        let (x, y, z) = (self.r.range(1, 50), self.r.range(51, 100), self.r.range(101, 500));
        let mk = |g: &mut Self, tok: &Option<String>, n: i64| match tok {
            Some(t) => E::Call(t.clone(), vec![E::Num(n)]),
            None => { let _ = g; E::Call("Ada".into(), vec![E::Num(n)]) }
        };
        let tok = if !self.tokens.is_empty() && self.r.chance(1, 2) { Some(self.r.pick(&self.tokens).clone()) } else { None };
        let chain = E::Add(
            Box::new(E::Sub(Box::new(mk(self, &tok, x)), Box::new(mk(self, &tok, y)))),
            Box::new(mk(self, &tok, z)),
        );
        if self.r.chance(1, 3) {
            // next to an amount of another class
            let other = if tok.is_some() { None } else if !self.tokens.is_empty() { Some(self.tokens[0].clone()) } else { None };
            if other != tok {
                return E::Add(Box::new(mk(self, &other, 7)), Box::new(chain));
            }
        }
        chain
    }

    /// Every small shape of + and - over constructors of one class, next to another class or alone, whose value stays
    /// positive: `X(a) - X(b)`, `X(a) - X(b) + Ada(q)`, `Ada(q) + (X(a) - X(b))`, `X(a) - X(b) + Y(c)`,
    /// `X(a) + Y(c) - X(b)`, `X(a) - (X(b) - X(c))` (a constructor met by a value that has already been through
    /// arithmetic, on either side).
    fn shaped_assets(&mut self) -> E {
        let (c, b, a) = (self.r.range(1, 20), self.r.range(21, 60), self.r.range(61, 500));
        let x = if self.tokens.is_empty() { "Ada".to_string() } else { self.r.pick(&self.tokens).clone() };
        let y = if x == "Ada" { self.tokens.first().cloned().unwrap_or_else(|| "Ada".into()) } else { "Ada".to_string() };
        let mk = |t: &str, n: i64| E::Call(t.to_string(), vec![E::Num(n)]);
        let sub = |l: E, r: E| E::Sub(Box::new(l), Box::new(r));
        let add = |l: E, r: E| E::Add(Box::new(l), Box::new(r));
        match self.r.below(6) {
            0 => sub(mk(&x, a), mk(&x, b)),
            1 => add(sub(mk(&x, a), mk(&x, b)), mk(&y, 2_000_000)),
            2 => add(mk(&y, 2_000_000), sub(mk(&x, a), mk(&x, b))),
            3 => add(sub(mk(&x, a), mk(&x, b)), mk(&y, c)),
            4 => sub(add(mk(&x, a), mk(&y, c)), mk(&x, b)),
            _ => sub(mk(&x, a), sub(mk(&x, b), mk(&x, c))),
        }
    }

    fn small_assets(&mut self, depth: usize) -> E {
        if self.r.chance(1, 8) {
            return self.dipping_assets();
        }
        if self.r.chance(1, 6) {
            return self.shaped_assets();
        }
        let a = self.asset_atom();
        if depth == 0 || self.r.chance(1, 2) {
            a
        } else {
            E::Add(Box::new(a), Box::new(self.small_assets(depth - 1)))
        }
    }

    fn datum(&mut self) -> E {
        match self.r.below(9) {
            0..=2 => {
                // record R, possibly with a spread from an input carrying an R datum
                let mut fields = vec![];
                let spread_from = if !self.datum_inputs.is_empty() && self.r.chance(1, 2) { Some(self.r.pick(&self.datum_inputs).clone()) } else { None };
                let all = ["counter", "label", "extra"];
                for f in all {
                    let keep = spread_from.is_none() || self.r.chance(1, 2);
                    if keep {
                        let v = if f == "label" { self.bytes_expr(1) } else { self.int_expr(2) };
                        fields.push((f.to_string(), v));
                    }
                }
                // explicit fields may come in any order
                if fields.len() > 1 && self.r.chance(1, 3) {
                    fields.reverse();
                }
                E::Record { ty: "R".into(), case: None, fields, spread: spread_from.map(|s| Box::new(E::Id(s))) }
            }
            3 => E::Record { ty: "V".into(), case: Some("A".into()), fields: vec![("x".into(), self.int_expr(2)), ("y".into(), self.bytes_expr(1))], spread: None },
            4 => match self.r.below(3) {
                // a variant whose third case carries the name the parser gives to a record's only case
                0 => E::Record { ty: "W".into(), case: Some("Default".into()), fields: vec![("weight".into(), self.int_expr(1)), ("mark".into(), self.bytes_expr(0))], spread: None },
                1 => E::Record { ty: "W".into(), case: Some("High".into()), fields: vec![("boost".into(), self.int_expr(1))], spread: None },
                _ => E::Record { ty: "V".into(), case: Some("B".into()), fields: vec![], spread: None },
            },
            5 => E::List((0..self.r.below(4)).map(|_| self.int_expr(1)).collect()),
            6 => E::Map((0..1 + self.r.below(3)).map(|k| (E::Num(k as i64), self.bytes_expr(0))).collect()),
            7 => E::Unit,
            _ => {
                if self.r.chance(1, 2) {
                    self.int_expr(2)
                } else {
                    self.bytes_expr(1)
                }
            }
        }
    }
}

pub fn gen(r: &mut Rng) -> (Program, World) {
    let mainnet = r.chance(1, 3);
    let party_pool = [("Sender", 0xa1u8), ("Receiver", 0xb2), ("Third", 0xc3)];
    let nparties = 2 + r.below(2) as usize;
    let parties: Vec<(String, Vec<u8>)> = party_pool[..nparties].iter().map(|(n, f)| (n.to_string(), addr(mainnet, *f))).collect();

    let mut p = Program::default();
    p.parties = parties.iter().map(|x| x.0.clone()).collect();
    let mut w = World { mainnet, parties: parties.clone(), env_ints: vec![], env_bytes: vec![], int_args: vec![], bytes_args: vec![], addr_args: vec![], utxos: vec![] };

    // a third of the declared names are written with capitals: the IR asks for them in lower case
    let spelled = |r: &mut Rng, n: &str| -> String {
        match r.below(6) {
            0 => n.to_uppercase(),
            1 => n[..1].to_uppercase() + &n[1..],
            _ => n.to_string(),
        }
    };
    if r.chance(1, 2) {
        let margin = spelled(r, "margin");
        p.env.push((margin.clone(), Ty::Int));
        w.env_ints.push((margin, r.range(0, 5000) as i128));
        if r.chance(1, 2) {
            let tag = spelled(r, "tag");
            p.env.push((tag.clone(), Ty::Bytes));
            let n = 1 + r.below(6) as usize;
            w.env_bytes.push((tag, r.bytes(n)));
        }
    }
    let with_tok = r.chance(2, 3);
    let two_names = with_tok && r.chance(1, 2);
    if with_tok {
        p.policies.push(("Pol".into(), hx(&POLICY_TOK)));
        p.assets.push(("Tok".into(), E::Hex(hx(&POLICY_TOK)), if r.chance(1, 2) { E::Str("TK".into()) } else { E::Hex("544b".into()) }));
        if two_names {
            p.assets.push(("Tok2".into(), E::Hex(hx(&POLICY_TOK)), E::Str("T2".into())));
        }
    }
    p.types.push(TypeDef { name: "R".into(), record: true, cases: vec![CaseDef { name: "Default".into(), fields: vec![("counter".into(), Ty::Int), ("label".into(), Ty::Bytes), ("extra".into(), Ty::Int)] }] });
    p.types.push(TypeDef {
        name: "V".into(),
        record: false,
        cases: vec![CaseDef { name: "A".into(), fields: vec![("x".into(), Ty::Int), ("y".into(), Ty::Bytes)] }, CaseDef { name: "B".into(), fields: vec![] }],
    });
    p.types.push(TypeDef {
        name: "W".into(),
        record: false,
        cases: vec![
            CaseDef { name: "Low".into(), fields: vec![] },
            CaseDef { name: "High".into(), fields: vec![("boost".into(), Ty::Int)] },
            CaseDef { name: "Default".into(), fields: vec![("weight".into(), Ty::Int), ("mark".into(), Ty::Bytes)] },
        ],
    });

    let mut t = TxDef { name: "t".into(), ..Default::default() };
    // parameters
    let npos = 1 + r.below(2) as usize;
    let mut pos_params = vec![];
    for k in 0..npos {
        let n = ["quantity", "bonus"][k].to_string();
        t.params.push((n.clone(), Ty::Int));
        w.int_args.push((n.clone(), r.range(1, 3_000_000) as i128));
        pos_params.push(n);
    }
    let mut int_params = pos_params.clone();
    if r.chance(1, 2) {
        let delta = spelled(r, "delta");
        t.params.push((delta.clone(), Ty::Int));
        w.int_args.push((delta.clone(), boundary_small(r)));
        int_params.push(delta);
    }
    let mut bytes_params = vec![];
    if r.chance(1, 2) {
        let note = spelled(r, "note");
        t.params.push((note.clone(), Ty::Bytes));
        let n = r.below(9) as usize;
        w.bytes_args.push((note.clone(), r.bytes(n)));
        bytes_params.push(note);
    }
    let addr_param = r.chance(1, 3);
    if addr_param {
        t.params.push(("dest".into(), Ty::Address));
        w.addr_args.push(("dest".into(), addr(mainnet, 0xd4)));
    }

    // inputs: `source` from Sender; optionally `extra_in` from Receiver carrying an R datum
    let second = r.chance(1, 2);
    let datum_on_source = r.chance(1, 3);
    // a source made of several UTxOs holding the very same amounts (`input* source`): what it stands for is their sum
    let many_source = !datum_on_source && r.chance(1, 3);
    let mut datum_inputs = vec![];
    if datum_on_source {
        datum_inputs.push("source".to_string());
    }
    if second {
        datum_inputs.push("extra_in".to_string());
    }

    let mut g = G {
        r,
        int_params,
        pos_params,
        bytes_params,
        int_env: w.env_ints.iter().map(|x| x.0.clone()).collect(),
        bytes_env: w.env_bytes.iter().map(|x| x.0.clone()).collect(),
        int_locals: vec![],
        datum_inputs: datum_inputs.clone(),
        // with a second name under the same policy, outputs can hold both
        tokens: if two_names { vec!["Tok".into(), "Tok2".into()] } else if with_tok { vec!["Tok".into()] } else { vec![] },
    };

    // locals: chains of integer expressions
    let nlocals = g.r.below(4) as usize;
    for k in 0..nlocals {
        let n = format!("loc{k}");
        let e = g.int_expr(2);
        t.locals.push((n.clone(), e));
        g.int_locals.push(n);
    }

    // what the transaction pays out
    let nout = 1 + g.r.below(3) as usize;
    let mut paid: Vec<E> = vec![];
    for k in 0..nout {
        let amount = g.small_assets(2);
        paid.push(amount.clone());
        let to = if addr_param && g.r.chance(1, 2) { E::Id("dest".into()) } else { E::Id(g.r.pick(&p.parties).clone()) };
        let datum = if g.r.chance(1, 2) { Some(g.datum()) } else { None };
        t.outputs.push(OutputBlock { name: if g.r.chance(1, 2) { Some(format!("out{k}")) } else { None }, optional: false, to: Some(to), amount: Some(amount), datum });
    }
    // the change: source minus everything paid minus fees, associated in different ways
    let fees = E::Id("fees".into());
    let src = E::Id("source".into());
    let mut terms = paid.clone();
    terms.push(fees.clone());
    if g.r.chance(1, 3) {
        let k = g.r.below(terms.len() as u64) as usize;
        terms.rotate_left(k);
    }
    let change = match g.r.below(3) {
        0 => terms.iter().fold(src.clone(), |acc, x| E::Sub(Box::new(acc), Box::new(x.clone()))),
        1 => {
            let sum = terms[1..].iter().fold(terms[0].clone(), |acc, x| E::Add(Box::new(acc), Box::new(x.clone())));
            E::Sub(Box::new(src.clone()), Box::new(sum))
        }
        _ => {
            // source - a - (b + c …)
            let first = E::Sub(Box::new(src.clone()), Box::new(terms[0].clone()));
            if terms.len() > 1 {
                let sum = terms[2..].iter().fold(terms[1].clone(), |acc, x| E::Add(Box::new(acc), Box::new(x.clone())));
                E::Sub(Box::new(first), Box::new(sum))
            } else {
                first
            }
        }
    };
    let change_datum = if g.r.chance(1, 3) { Some(g.datum()) } else { None };
    t.outputs.push(OutputBlock { name: Some("change".into()), optional: false, to: Some(E::Id("Sender".into())), amount: Some(change), datum: change_datum });

    // min_amount of source: everything paid plus fees
    let need = terms.iter().skip(1).fold(terms[0].clone(), |acc, x| E::Add(Box::new(acc), Box::new(x.clone())));
    t.inputs.push(InputBlock { name: "source".into(), many: many_source, from: Some(E::Id("Sender".into())), min_amount: Some(need), datum_is: if datum_on_source { Some(Ty::Custom("R".into())) } else { None }, ..Default::default() });
    if second {
        t.inputs.push(InputBlock { name: "extra_in".into(), from: Some(E::Id("Receiver".into())), min_amount: Some(E::Call("Ada".into(), vec![E::Num(1)])), datum_is: Some(Ty::Custom("R".into())), ..Default::default() });
        // its value goes back to where it came from
        t.outputs.push(OutputBlock { name: None, optional: false, to: Some(E::Id("Receiver".into())), amount: Some(E::Id("extra_in".into())), datum: if g.r.chance(1, 2) { Some(E::Id("extra_in".into())) } else { None } });
    }

    // the rest of the body
    if with_tok && g.r.chance(1, 3) {
        // sometimes a second asset name under the same policy, in the same block or in its own
        let first = E::Call("Tok".into(), vec![g.pos_int(1)]);
        match if two_names { g.r.below(3) } else { 0 } {
            0 => t.mints.push(MintBlock { amount: Some(first), redeemer: None }),
            1 => {
                let second = E::Call("Tok2".into(), vec![g.pos_int(1)]);
                t.mints.push(MintBlock { amount: Some(E::Add(Box::new(first), Box::new(second))), redeemer: None });
            }
            _ => {
                t.mints.push(MintBlock { amount: Some(first), redeemer: None });
                t.mints.push(MintBlock { amount: Some(E::Call("Tok2".into(), vec![g.pos_int(1)])), redeemer: None });
            }
        }
        if g.r.chance(1, 2) {
            t.burns.push(MintBlock { amount: Some(E::Call("Tok".into(), vec![E::Num(g.r.range(1, 5))])), redeemer: None });
        }
    }
    if g.r.chance(1, 2) {
        let since = if g.r.chance(1, 2) { Some(g.int_expr(1)) } else { None };
        let until = if since.is_none() || g.r.chance(1, 2) { Some(g.int_expr(1)) } else { None };
        t.validity = Some((since, until));
    }
    if g.r.chance(1, 3) {
        let mut s = vec![E::Id(g.r.pick(&p.parties).clone())];
        if g.r.chance(1, 2) {
            s.push(E::Hex(hx(&[0x5e; 28])));
        }
        t.signers = Some(s);
    }
    if g.r.chance(1, 3) {
        let n = 1 + g.r.below(2);
        let mut md = vec![];
        for k in 0..n {
            let v = match g.r.below(3) {
                0 => g.int_expr(1),
                1 => E::Str("meta".into()),
                _ => g.bytes_expr(0),
            };
            md.push((E::Num(10 + k as i64 * 7), v));
        }
        t.metadata = Some(md);
    }
    if g.r.chance(1, 4) {
        t.references.push(("refd".into(), E::UtxoRef(hx(&[0x77; 32]), g.r.below(3))));
    }
    // an optional output (`output? gift`): carrying a token and no lovelace, lovelace only, or nothing at all (then it
    // is left out and the outputs after it move up)
    if g.r.chance(1, 3) {
        let tok = if g.tokens.is_empty() { "Ada".to_string() } else { g.tokens[0].clone() };
        let mk = |t: &str, n: i64| E::Call(t.to_string(), vec![E::Num(n)]);
        let amount = match g.r.below(5) {
            0 => mk(&tok, 3),
            1 => mk("Ada", 0),
            2 => mk("Ada", 1_500_000),
            3 => E::Sub(Box::new(mk(&tok, 4)), Box::new(mk(&tok, 4))),
            _ => E::Add(Box::new(mk(&tok, 2)), Box::new(mk("Ada", 0))),
        };
        let at = g.r.below(t.outputs.len() as u64 + 1) as usize;
        t.outputs.insert(at, OutputBlock { name: Some("gift".into()), optional: true, to: Some(E::Id("Receiver".into())), amount: Some(amount), datum: None });
    }
    // chain-specific directives (their lowering is part of the model: `LangAdhoc`): a donation of an integer
    // expression, script witnesses
    if g.r.chance(1, 4) {
        // (a positive amount: a literal, a positive parameter, or their sum)
        let coin = match g.r.below(3) {
            0 => E::Num(g.r.range(1, 5000)),
            1 => E::Id("quantity".into()),
            _ => E::Add(Box::new(E::Id("quantity".into())), Box::new(E::Num(g.r.range(1, 9)))),
        };
        t.adhoc.push(("treasury_donation".into(), vec![("coin".into(), coin)]));
    }
    if g.r.chance(1, 6) {
        t.adhoc.push(("native_witness".into(), vec![("script".into(), E::Hex("820181820400".into()))]));
    }
    if g.r.chance(1, 6) {
        let v = 1 + g.r.below(3) as i64;
        t.adhoc.push(("plutus_witness".into(), vec![("version".into(), E::Num(v)), ("script".into(), E::Hex("5101010023259800a518a4d136564004ae69".into()))]));
    }
    drop(g);

    // the ledger state: one UTxO per party, rich enough
    for (k, (name, _)) in parties.iter().enumerate() {
        let with_datum = (name == "Sender" && datum_on_source) || (name == "Receiver" && second);
        if name == "Sender" && many_source {
            // two UTxOs with the very same lovelace, the tokens split between them: a transaction that pays out of
            // both token classes needs both, and `source` is then twice that lovelace
            let lovelace = 1_000_000_000 + r.below(900_000_000) as i128;
            let tk = 1_000_000_000_000 + r.below(1000) as i128;
            w.utxos.push(UtxoSpec {
                party: name.clone(),
                txid: vec![0x40; 32],
                index: 0,
                lovelace,
                tokens: vec![(POLICY_TOK.to_vec(), b"TK".to_vec(), tk), (POLICY_TOK.to_vec(), b"T2".to_vec(), tk)],
                datum: None,
            });
            w.utxos.push(UtxoSpec {
                party: name.clone(),
                txid: vec![0x41; 32],
                index: 1,
                lovelace,
                tokens: vec![(POLICY_ANY.to_vec(), b"ANY".to_vec(), tk)],
                datum: None,
            });
            continue;
        }
        w.utxos.push(UtxoSpec {
            party: name.clone(),
            txid: vec![0x10 + k as u8; 32],
            index: r.below(3) as u32,
            lovelace: 1_000_000_000 + r.below(900_000_000) as i128,
            tokens: {
                let mut ts = vec![];
                if name == "Sender" {
                    ts.push((POLICY_TOK.to_vec(), b"TK".to_vec(), 1_000_000_000_000 + r.below(1000) as i128));
                    // the second name under the same policy, so that outputs holding both can be funded
                    ts.push((POLICY_TOK.to_vec(), b"T2".to_vec(), 1_000_000_000_000 + r.below(1000) as i128));
                    ts.push((POLICY_ANY.to_vec(), b"ANY".to_vec(), 1_000_000_000_000 + r.below(1000) as i128));
                } else if r.chance(1, 3) {
                    ts.push((POLICY_TOK.to_vec(), b"TK".to_vec(), 1 + r.below(50) as i128));
                }
                ts
            },
            datum: if with_datum {
                let n = r.below(5) as usize;
                Some((boundary_small(r), r.bytes(n), r.range(-5, 500) as i128))
            } else {
                None
            },
        });
    }
    // half of the references point at a UTxO the transaction also spends (the sender's): it is then both an input
    // and a reference input of the transaction
    if let Some(first) = w.utxos.iter().find(|u| u.party == "Sender") {
        let (txid, index) = (hx(&first.txid), first.index as u64);
        for (_, e) in t.references.iter_mut() {
            if r.chance(1, 2) {
                *e = E::UtxoRef(txid.clone(), index);
            }
        }
    }
    p.txs.push(t);
    (p, w)
}

fn boundary_small(r: &mut Rng) -> i128 {
    match r.below(5) {
        0 => 0,
        1 => -1,
        2 => r.range(-1000, 1000) as i128,
        3 => i64::MAX as i128,
        _ => r.range(0, 10_000_000) as i128,
    }
}

pub fn world_json(w: &World) -> Value {
    json!({
        "mainnet": w.mainnet,
        "parties": w.parties.iter().map(|(n, a)| json!({"name": n, "address": hx(a)})).collect::<Vec<_>>(),
        "env_ints": w.env_ints.iter().map(|(n, v)| json!({"name": n, "v": int(*v)})).collect::<Vec<_>>(),
        "env_bytes": w.env_bytes.iter().map(|(n, v)| json!({"name": n, "v": hx(v)})).collect::<Vec<_>>(),
        "int_args": w.int_args.iter().map(|(n, v)| json!({"name": n, "v": int(*v)})).collect::<Vec<_>>(),
        "bytes_args": w.bytes_args.iter().map(|(n, v)| json!({"name": n, "v": hx(v)})).collect::<Vec<_>>(),
        "addr_args": w.addr_args.iter().map(|(n, v)| json!({"name": n, "v": hx(v)})).collect::<Vec<_>>(),
        "utxos": w.utxos.iter().map(|u| json!({"party": u.party, "txid": hx(&u.txid), "index": u.index, "lovelace": int(u.lovelace),
            "tokens": u.tokens.iter().map(|(p, n, a)| json!({"policy": hx(p), "name": hx(n), "amount": int(*a)})).collect::<Vec<_>>(),
            "datum": u.datum.as_ref().map(|(c, l, e)| json!({"counter": int(*c), "label": hx(l), "extra": int(*e)})).unwrap_or(Value::Null)})).collect::<Vec<_>>(),
    })
}

pub fn args_of(w: &World) -> BTreeMap<String, ArgValue> {
    let mut m = BTreeMap::new();
    for (n, a) in &w.parties {
        m.insert(n.to_lowercase(), ArgValue::Address(a.clone()));
    }
    for (n, v) in w.env_ints.iter().chain(w.int_args.iter()) {
        m.insert(n.to_lowercase(), ArgValue::Int(*v));
    }
    for (n, v) in w.env_bytes.iter().chain(w.bytes_args.iter()) {
        m.insert(n.to_lowercase(), ArgValue::Bytes(v.clone()));
    }
    for (n, v) in &w.addr_args {
        m.insert(n.to_lowercase(), ArgValue::Address(v.clone()));
    }
    m
}

pub fn store_of(w: &World) -> MemStore {
    MemStore {
        utxos: w
            .utxos
            .iter()
            .map(|u| {
                let mut assets = CanonicalAssets::from_naked_amount(u.lovelace);
                for (p, n, a) in &u.tokens {
                    assets = assets + CanonicalAssets::from_defined_asset(p, n, *a);
                }
                let address = w.parties.iter().find(|(n, _)| *n == u.party).map(|x| x.1.clone()).unwrap_or_default();
                Utxo {
                    r#ref: UtxoRef { txid: u.txid.clone(), index: u.index },
                    address,
                    assets,
                    datum: u.datum.as_ref().map(|(c, l, e)| {
                        tir::Expression::Struct(tir::StructExpr { constructor: 0, fields: vec![tir::Expression::Number(*c), tir::Expression::Bytes(l.clone()), tir::Expression::Number(*e)] })
                    }),
                    script: None,
                }
            })
            .collect(),
    }
}

/// parse → analyze → lower, through the public stages.
pub fn front(src: &str, tx: &str) -> Result<tir::Tx, String> {
    let r = guarded(|| -> Result<tir::Tx, String> {
        let mut ast = tx3_lang::parsing::parse_string(src).map_err(|e| format!("parse:{}", e.message))?;
        let report = tx3_lang::analyzing::analyze(&mut ast);
        if !report.errors.is_empty() {
            return Err(format!("analyze:{}", report.errors.iter().map(|e| e.to_string()).collect::<Vec<_>>().join("; ")));
        }
        tx3_lang::lowering::lower(&ast, tx).map_err(|e| format!("lower:{e}"))
    });
    match r {
        Ok(x) => x,
        Err(site) => Err(format!("panic:{site}")),
    }
}

pub fn pipeline(src: &str, w: &World) -> Value {
    let lowered = match front(src, "t") {
        Ok(t) => t,
        Err(e) => return json!({"front_err": e}),
    };
    let pp = store::pparams(w.mainnet, 44, 155381, 4310, true);
    let mut c = Tracing::new(store::compiler(pp, None));
    let st = store_of(w);
    let args = args_of(w);
    let r = guarded(|| pollster::block_on(tx3_resolver::resolve_tx(tx3_tir::encoding::AnyTir::V1Beta0(lowered.clone()), &args, &mut c, &st, 10)));
    let outcome = match r {
        Ok(Ok(ctx)) => json!({"ok": {"payload": hx(&ctx.payload), "hash": hx(&ctx.hash), "fee": ctx.fee}}),
        other => json!({"class": crate::stages::resolve_class(&other)}),
    };
    json!({"lowered": crate::tirjson::tx_json(&lowered), "final_tir": c.last_tir.borrow().clone(), "outcome": outcome})
}

pub fn run(opts: &Opts, out: &mut Emitter) {
    let mut r = Rng::new(opts.seed ^ 0xc01);
    for k in 0..opts.n {
        let (p, w) = gen(&mut r);
        let layout_seed = r.next();
        out.case("core-program", || {
            let plain = print_program(&mut Layout::plain(), &p);
            let fancy = print_program(&mut Layout::random(layout_seed), &p);
            let a = pipeline(&plain, &w);
            let b = pipeline(&fancy, &w);
            let same_lowered = a.get("lowered") == b.get("lowered");
            let same_outcome = a.get("outcome") == b.get("outcome") && a.get("front_err") == b.get("front_err");
            let _ = k;
            json!({"program": program_json(&p), "world": world_json(&w), "src": plain, "src2": fancy, "obs": a,
                   "layout": {"same_lowered": same_lowered, "same_outcome": same_outcome, "front_err2": b.get("front_err").cloned().unwrap_or(Value::Null)}})
        });
    }
}
