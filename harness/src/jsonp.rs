//! C16 — JSON argument coercion (`interop::from_json`) and `parse_resolve_request`.

use crate::common::*;
use crate::tirjson::*;
use crate::Opts;
use serde_json::{json, Value};
use tx3_resolver::interop::{self, ArgValue};
use tx3_resolver::trp;
use tx3_tir::model::core::Type;
use tx3_tir::model::v1beta0 as tir;

/// A serde_json value in a tagged form that keeps what serde_json distinguishes
/// (integers it holds as u64/i64 vs. every other number).
pub fn tag_value(v: &Value) -> Value {
    match v {
        Value::Null => json!({"t": "null"}),
        Value::Bool(b) => json!({"t": "bool", "v": b}),
        Value::Number(n) => {
            if let Some(i) = n.as_i64() {
                json!({"t": "int", "v": i.to_string()})
            } else if let Some(u) = n.as_u64() {
                json!({"t": "int", "v": u.to_string()})
            } else {
                json!({"t": "float"})
            }
        }
        Value::String(s) => json!({"t": "str", "v": s}),
        Value::Array(_) => json!({"t": "arr"}),
        Value::Object(m) => json!({"t": "obj", "v": m.iter().map(|(k, x)| json!([k, tag_value(x)])).collect::<Vec<_>>()}),
    }
}

fn interop_err(e: &interop::Error) -> String {
    use interop::Error as E;
    match e {
        E::InvalidBase64(_) => "InvalidBase64",
        E::InvalidHex(_) => "InvalidHex",
        E::InvalidBech32(_) => "InvalidBech32",
        E::InvalidBytesForNumber(_) => "InvalidBytesForNumber",
        E::ValueIsNull => "ValueIsNull",
        E::CantInferTypeForValue(_) => "CantInferTypeForValue",
        E::ValueIsNotANumber(_) => "ValueIsNotANumber",
        E::NumberCantFit(_) => "NumberCantFit",
        E::ValueIsNotABool(_) => "ValueIsNotABool",
        E::ValueIsNotAString => "ValueIsNotAString",
        E::ValueIsNotBytes(_) => "ValueIsNotBytes",
        E::ValueIsNotUtxoRef(_) => "ValueIsNotUtxoRef",
        E::InvalidBytesEnvelope(_) => "InvalidBytesEnvelope",
        E::ValueIsNotAnAddress(_) => "ValueIsNotAnAddress",
        E::InvalidUtxoRef(_) => "InvalidUtxoRef",
        E::TargetTypeNotSupported(_) => "TargetTypeNotSupported",
    }
    .to_string()
}

fn arg_json(a: &ArgValue) -> Value {
    match a {
        ArgValue::Int(x) => json!({"int": x.to_string()}),
        ArgValue::Bool(x) => json!({"bool": x}),
        ArgValue::String(x) => json!({"string": x}),
        ArgValue::Bytes(x) => json!({"bytes": hx(x)}),
        ArgValue::Address(x) => json!({"address": hx(x)}),
        ArgValue::UtxoRef(r) => json!({"utxoRef": ref_json(r)}),
        ArgValue::UtxoSet(_) => json!({"utxoSet": true}),
    }
}

fn from_json_obs(v: &Value, ty: &Type) -> Value {
    match guarded(|| interop::from_json(v.clone(), ty)) {
        Ok(Ok(a)) => json!({"ok": arg_json(&a)}),
        Ok(Err(e)) => json!({"err": interop_err(&e)}),
        Err(site) => json!({"panic": site}),
    }
}

fn be16(v: i128) -> String {
    format!("0x{}", hex::encode(v.to_be_bytes()))
}

fn b64(b: &[u8]) -> String {
    // standard alphabet with padding (what the base64 crate's STANDARD engine reads)
    const T: &[u8; 64] = b"ABCDEFGHIJKLMNOPQRSTUVWXYZabcdefghijklmnopqrstuvwxyz0123456789+/";
    let mut out = String::new();
    for c in b.chunks(3) {
        let n = (c[0] as u32) << 16 | (*c.get(1).unwrap_or(&0) as u32) << 8 | (*c.get(2).unwrap_or(&0) as u32);
        out.push(T[(n >> 18) as usize & 63] as char);
        out.push(T[(n >> 12) as usize & 63] as char);
        out.push(if c.len() > 1 { T[(n >> 6) as usize & 63] as char } else { '=' });
        out.push(if c.len() > 2 { T[n as usize & 63] as char } else { '=' });
    }
    out
}

/// Bech32 (BIP-173) written here from the specification, independently of the crate the resolver decodes with.
fn bech32_encode(hrp: &str, data: &[u8]) -> String {
    const CHARSET: &[u8; 32] = b"qpzry9x8gf2tvdw0s3jn54khce6mua7l";
    fn polymod(v: &[u8]) -> u32 {
        const GEN: [u32; 5] = [0x3b6a57b2, 0x26508e6d, 0x1ea119fa, 0x3d4233dd, 0x2a1462b3];
        let mut chk: u32 = 1;
        for &x in v {
            let b = chk >> 25;
            chk = ((chk & 0x1ffffff) << 5) ^ (x as u32);
            for (i, g) in GEN.iter().enumerate() {
                if (b >> i) & 1 == 1 {
                    chk ^= g;
                }
            }
        }
        chk
    }
    let mut v: Vec<u8> = hrp.bytes().map(|c| c >> 5).collect();
    v.push(0);
    v.extend(hrp.bytes().map(|c| c & 31));
    let mut d5: Vec<u8> = vec![];
    let (mut acc, mut bits) = (0u32, 0u32);
    for &b in data {
        acc = ((acc << 8) | b as u32) & 0xfff;
        bits += 8;
        while bits >= 5 {
            bits -= 5;
            d5.push(((acc >> bits) & 31) as u8);
        }
    }
    if bits > 0 {
        d5.push(((acc << (5 - bits)) & 31) as u8);
    }
    v.extend(&d5);
    v.extend([0u8; 6]);
    let pm = polymod(&v) ^ 1;
    let mut s = String::from(hrp);
    s.push('1');
    for x in &d5 {
        s.push(CHARSET[*x as usize] as char);
    }
    for i in 0..6 {
        s.push(CHARSET[((pm >> (5 * (5 - i))) & 31) as usize] as char);
    }
    s
}

/// Human-readable parts of Cardano addresses (CIP-5): payment and reward addresses, main and test networks.
const ADDRESS_HRPS: [&str; 4] = ["addr", "addr_test", "stake", "stake_test"];

const BECH32_A: &str = "addr1qx0rs5qrvx9qkndwu0w88t0xghgy3f53ha76kpx8uf496m9rn2ursdm3r0fgf5pmm4lpufshl8lquk5yykg4pd00hp6quf2hh2";

fn random_json(r: &mut Rng, depth: u32) -> Value {
    match r.below(if depth == 0 { 6 } else { 8 }) {
        0 => Value::Null,
        1 => Value::Bool(r.chance(1, 2)),
        2 => json!(r.range(-5, 5)),
        3 => json!(r.next()),
        4 => json!(1.5),
        5 => Value::String((*r.pick(&["", "0x", "abc", "0x0x12", "12", "-7", "+3", "true", "0xzz", "ff#1", "#", "1e3", " 5"])).to_string()),
        6 => Value::Array(vec![random_json(r, depth - 1)]),
        _ => {
            let mut m = serde_json::Map::new();
            for k in ["content", "contentType", "encoding", "bytecode", "x"] {
                if r.chance(1, 2) {
                    m.insert(k.to_string(), if r.chance(2, 3) { json!(*r.pick(&["hex", "base64", "ff", "/w==", "zz"])) } else { random_json(r, depth - 1) });
                }
            }
            Value::Object(m)
        }
    }
}

/// The template the requests are about: five declared parameters of different types.
fn request_tx() -> tir::Tx {
    let mut t = empty_tx();
    t.fees = fees_param();
    t.outputs.push(tir::Output {
        address: param("addr", Type::Address),
        datum: tir::Expression::List(vec![param("flag", Type::Bool), param("blob", Type::Bytes)]),
        amount: tir::Expression::Assets(vec![tir::AssetExpr {
            policy: tir::Expression::None,
            asset_name: tir::Expression::None,
            amount: param("qty", Type::Int),
        }]),
        optional: false,
    });
    t.references.push(param("anchor", Type::UtxoRef));
    t
}

pub fn run(opts: &Opts, out: &mut Emitter) {
    let mut r = Rng::new(opts.seed ^ 0x1616);
    let emit_fj = |out: &mut Emitter, gen: &str, v: Value, ty: Type, expect: Value| {
        out.case(gen, || json!({"probe": "from_json", "val": tag_value(&v), "ty": ty_json(&ty), "expect": expect, "obs": from_json_obs(&v, &ty)}));
    };
    // every admissible encoding of values of every argument type
    for k in 0..opts.n {
        let v = boundary_i128(&mut r);
        let exp = json!({"int": v.to_string()});
        emit_fj(out, "int:decimal-string", json!(v.to_string()), Type::Int, exp.clone());
        emit_fj(out, "int:hex16", json!(be16(v)), Type::Int, exp.clone());
        if let Ok(x) = i64::try_from(v) {
            emit_fj(out, "int:number", json!(x), Type::Int, exp.clone());
        } else if let Ok(x) = u64::try_from(v) {
            emit_fj(out, "int:number", json!(x), Type::Int, exp.clone());
        }
        let b = r.chance(1, 2);
        let bexp = json!({"bool": b});
        emit_fj(out, "bool:literal", json!(b), Type::Bool, bexp.clone());
        emit_fj(out, "bool:number", json!(b as u8), Type::Bool, bexp.clone());
        emit_fj(out, "bool:string", json!(b.to_string()), Type::Bool, bexp);
        let l = *r.pick(&[0usize, 1, 2, 28, 32, 57]);
        let bytes = r.bytes(l);
        let bx = json!({"bytes": hx(&bytes)});
        emit_fj(out, "bytes:hex", json!(hx(&bytes)), Type::Bytes, bx.clone());
        emit_fj(out, "bytes:0xhex", json!(format!("0x{}", hx(&bytes))), Type::Bytes, bx.clone());
        emit_fj(out, "bytes:HEX", json!(hx(&bytes).to_uppercase()), Type::Bytes, bx.clone());
        emit_fj(out, "bytes:envelope-hex", json!({"content": hx(&bytes), "contentType": "hex"}), Type::Bytes, bx.clone());
        emit_fj(out, "bytes:envelope-base64", json!({"content": b64(&bytes), "contentType": "base64"}), Type::Bytes, bx.clone());
        emit_fj(out, "bytes:envelope-aliases", json!({"payload": hx(&bytes), "encoding": "hex"}), Type::Bytes, bx);
        let ab = r.bytes(29);
        emit_fj(out, "address:hex", json!(hx(&ab)), Type::Address, json!({"address": hx(&ab)}));
        if k % 16 == 0 {
            let data = tx3_resolver::interop::bech32_to_bytes(BECH32_A).map(|d| hx(&d)).unwrap_or_default();
            emit_fj(out, "address:bech32", json!(BECH32_A), Type::Address, json!({"address": data}));
        }
        if k % 4 == 1 {
            // every kind of address (CIP-5 prefixes), both lengths, encoded here
            let hrp = ADDRESS_HRPS[(k / 4) % 4];
            let l = if hrp.starts_with("stake") || r.chance(1, 3) { 29 } else { 57 };
            let payload = r.bytes(l);
            let text = bech32_encode(hrp, &payload);
            emit_fj(out, &format!("address:bech32:{hrp}"), json!(text), Type::Address, json!({"address": hx(&payload)}));
            // one character changed: the checksum no longer holds and the text is not hex either
            let mut bad: Vec<char> = text.chars().collect();
            let at = hrp.len() + 1 + r.below((bad.len() - hrp.len() - 1) as u64) as usize;
            bad[at] = if bad[at] == 'q' { 'p' } else { 'q' };
            emit_fj(out, "address:bech32-bad-checksum", json!(bad.into_iter().collect::<String>()), Type::Address, Value::Null);
        }
        let txl = *r.pick(&[0usize, 1, 32]);
        let txid = r.bytes(txl);
        let idx = match r.below(3) { 0 => 0u32, 1 => r.below(10) as u32, _ => u32::MAX };
        emit_fj(out, "utxoref", json!(format!("{}#{}", hx(&txid), idx)), Type::UtxoRef, json!({"utxoRef": [hx(&txid), idx]}));
    }
    // byte envelopes whose content is not valid for the encoding they declare, under every spelling of the keys
    for (ck, ek) in [("content", "contentType"), ("content", "encoding"), ("payload", "encoding"), ("payload", "contentType")] {
        for enc in ["hex", "base64", "HEX", "Base64", "utf8", ""] {
            for content in ["abc", "zz", "0x0x12", "0xabc", "/w=", "a", "=", "héé", "", " ff", "ff ", "/w==", "ff"] {
                let mut m = serde_json::Map::new();
                m.insert(ck.to_string(), json!(content));
                m.insert(ek.to_string(), json!(enc));
                emit_fj(out, "bytes:envelope-malformed", Value::Object(m), Type::Bytes, Value::Null);
            }
        }
    }
    // bare JSON number literals as they arrive in a request body (text → serde_json → from_json): the
    // coerced integer must be the literal's value, or the value must be rejected
    let lits: Vec<String> = {
        let mut v: Vec<String> = vec![];
        let two64: i128 = 1 << 64;
        for d in [-2i128, -1, 0, 1, 2] {
            v.push((two64 + d).to_string());
            v.push((-(two64) + d).to_string());
            v.push(((1i128 << 63) + d).to_string());
            v.push((-(1i128 << 63) + d).to_string());
            v.push(((1i128 << 53) + d).to_string());
        }
        v.push(i128::MAX.to_string());
        v.push(i128::MIN.to_string());
        v.push("170141183460469231731687303715884105728".into()); // 2^127
        v.push("340282366920938463463374607431768211456".into()); // 2^128
        v.push("123456789012345678901234567890".into());
        v.push("-123456789012345678901234567890".into());
        v.push("1e3".into());
        v.push("2.0".into());
        v.push("-0".into());
        v.push("1E20".into());
        v.push("18446744073709551617.0".into());
        for _ in 0..opts.n.min(400) {
            let x = boundary_i128(&mut r);
            v.push(x.to_string());
        }
        v
    };
    for lit in &lits {
        for ty in [Type::Int, Type::Undefined] {
            let parsed: Result<Value, _> = serde_json::from_str(lit);
            if let Ok(v) = parsed {
                out.case("int:json-literal", || json!({"probe": "from_json", "val": tag_value(&v), "ty": ty_json(&ty), "expect": Value::Null,
                    "literal": lit, "obs": from_json_obs(&v, &ty)}));
            }
        }
    }
    // ill-formed values and random JSON against every type
    let types = [Type::Int, Type::Bool, Type::Bytes, Type::Address, Type::UtxoRef, Type::Undefined, Type::List, Type::Custom("X".into())];
    let fixed: Vec<Value> = vec![
        json!("0x0x12"), json!("0x"), json!("0xabc"), json!("ab#1"), json!("ab#-1"), json!("ab#4294967296"), json!("ab#+1"),
        json!("0xab#1"), json!("zz#1"), json!("#"), json!("ab#"), json!(""), json!("-"), json!("+"), json!("+5"), json!("-0"), json!("007"),
        json!("170141183460469231731687303715884105728"), json!("-170141183460469231731687303715884105729"),
        json!("0x00000000000000000000000000000001"), json!("0x000000000000000000000000000001"), json!("0xffffffffffffffffffffffffffffffff"),
        json!(18446744073709551615u64), json!(-9223372036854775808i64), json!(1.0), json!(2), json!("TRUE"), json!("1"),
        json!(3), json!(7), json!(255), json!(256), json!(-1), json!(4294967296u64), json!("0"), json!("yes"), json!("True"), json!(0.0),
        json!("ab#4294967295"), json!("ab#4294967297"), json!("ab#4294967299"), json!("ab#30064771072"), json!("ab#18446744073709551615"),
        json!("ab#18446744073709551616"), json!("ab# 1"), json!("ab#1 "), json!("ab#0x1"),
        json!({"content": "ff", "contentType": "hex", "payload": "aa"}), json!({"content": "ff"}), json!({"contentType": "hex"}),
        json!({"content": "ff", "contentType": "HEX"}), json!({"content": 5, "contentType": "hex"}), json!({"content": "/w==", "contentType": "base64"}),
        json!({"content": "!!", "contentType": "base64"}), json!(null), json!([1, 2]),
    ];
    for v in &fixed {
        for ty in &types {
            emit_fj(out, "ill-formed", v.clone(), ty.clone(), Value::Null);
        }
    }
    for _ in 0..opts.n * 4 {
        let v = random_json(&mut r, 2);
        let ty = r.pick(&types).clone();
        emit_fj(out, "random-json", v, ty, Value::Null);
    }

    // resolve requests
    let tx = request_tx();
    let (bytes, version) = tx3_tir::encoding::to_bytes(&tx);
    let declared = json!([["addr", "address"], ["anchor", "utxoRef"], ["blob", "bytes"], ["flag", "bool"], ["qty", "int"]]);
    let good: Vec<(&str, Value)> = vec![
        ("addr", json!(hx(&[0x60; 29]))),
        ("anchor", json!("00ff#2")),
        ("blob", json!("0xc0ffee")),
        ("flag", json!(true)),
        ("qty", json!("12345678901234567890123")),
    ];
    for k in 0..opts.n * 2 + 128 {
        // (the last 128: a version name with a wide character at each position in turn)
        let forced: Option<usize> = if k >= opts.n * 2 { Some(k - opts.n * 2) } else { None };
        // parameters split arbitrarily between args and env, undeclared extras, occasional bad values
        let mut args = serde_json::Map::new();
        let mut env = serde_json::Map::new();
        for (name, val) in &good {
            let val = if r.chance(1, 12) { random_json(&mut r, 1) } else { val.clone() };
            match r.below(5) {
                0 => {}
                1 | 2 => {
                    args.insert(name.to_string(), val);
                }
                3 => {
                    env.insert(name.to_string(), val);
                }
                _ => {
                    // both: the argument wins (the environment's entry is still read: a value it cannot read refuses
                    // the request, another good value is replaced by the argument)
                    let alt = match *name {
                        "addr" => json!(hx(&[0x61; 29])),
                        "anchor" => json!("00aa#5"),
                        "blob" => json!("0xbeef"),
                        "flag" => json!(false),
                        _ => json!("7"),
                    };
                    env.insert(name.to_string(), if r.chance(1, 4) { json!("shadowed-by-the-argument") } else { alt });
                    args.insert(name.to_string(), val);
                }
            }
        }
        if r.chance(1, 3) {
            args.insert("undeclared".into(), json!(1));
        }
        if r.chance(1, 3) {
            env.insert("other".into(), json!("x"));
        }
        let (content, encoding, ver): (String, Value, String) = match if forced.is_some() { 5 } else if k % 3 == 0 { r.below(9) } else { 0 } {
            1 => ("zz".into(), json!("hex"), version.to_string()),
            2 => (hx(&bytes), json!("base64"), version.to_string()),
            3 => (hx(&bytes[..bytes.len() / 2]), json!("hex"), version.to_string()),
            4 => (hx(&bytes), json!("hex"), "v1alpha8".into()),
            5 => {
                // a version nobody knows: short, long, and long with a wide character at a position that rotates
                let name = match if forced.is_some() { 1 } else { k % 9 } {
                    0 => "v9".to_string(),
                    3 => "v".repeat(1 + (k / 9) % 80),
                    _ => {
                        let mut t: Vec<char> = "v1beta0-this-is-not-a-version-anyone-has-ever-heard-of-before-xx".chars().collect();
                        let (at, four) = match forced {
                            Some(j) => (j % 64, j / 64 == 1),
                            None => ((k / 9) % 64, k % 2 == 1),
                        };
                        t[at] = if four { '😀' } else { 'é' };
                        t.into_iter().collect()
                    }
                };
                (hx(&bytes), json!("hex"), name)
            }
            6 => (b64(&bytes), json!("base64"), version.to_string()),
            7 => (format!("0x{}", hx(&bytes)), json!("hex"), version.to_string()),
            // payloads of 0 to 9 bytes that are no IR at all, under both encodings
            8 => {
                let l = (k / 3) % 10;
                let junk = r.bytes(l);
                if k % 2 == 0 { (hx(&junk), json!("hex"), version.to_string()) } else { (b64(&junk), json!("base64"), version.to_string()) }
            }
            _ => (hx(&bytes), json!("hex"), version.to_string()),
        };
        let with_env = !env.is_empty() || r.chance(1, 2);
        let mut req = json!({"tir": {"content": content, "encoding": encoding, "version": ver}, "args": args});
        if with_env {
            req["env"] = Value::Object(env.clone());
        }
        out.case("request", || {
            let parsed: Result<trp::ResolveParams, _> = serde_json::from_value(req.clone());
            let obs = match parsed {
                Err(e) => json!({"bad_request": e.to_string().chars().take(80).collect::<String>()}),
                Ok(p) => match guarded(|| trp::parse_resolve_request(p)) {
                    Ok(Ok((_, m))) => json!({"ok": m.iter().map(|(k, v)| json!([k, arg_json(v)])).collect::<Vec<_>>()}),
                    Ok(Err(e)) => json!({"err": match &e {
                        tx3_resolver::Error::InteropError(ie) => format!("InteropError:{}", interop_err(ie)),
                        tx3_resolver::Error::TirEncodingError(_) => "TirEncodingError".to_string(),
                        other => format!("other:{other}").chars().take(60).collect(),
                    }}),
                    Err(site) => json!({"panic": site}),
                },
            };
            json!({"probe": "request", "declared": declared, "envelope_ok": content == hx(&bytes) && encoding == json!("hex") && ver == version.to_string()
                        || (encoding == json!("base64") && content == b64(&bytes) && ver == version.to_string())
                        || (content == format!("0x{}", hx(&bytes)) && ver == version.to_string()),
                   "args": args.iter().map(|(k, v)| json!([k, tag_value(v)])).collect::<Vec<_>>(),
                   "env": env.iter().map(|(k, v)| json!([k, tag_value(v)])).collect::<Vec<_>>(),
                   "obs": obs})
        });
    }
}
