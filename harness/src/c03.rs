//! C03 / C04 — input selection on the real resolver (`inputs::resolve`), read
//! back per block, plus the compiled body's input list.

use crate::common::*;
use crate::store::{self, MemStore};
use crate::tirjson::*;
use crate::Opts;
use serde_json::{json, Value};
use std::collections::BTreeMap;
use tx3_tir::encoding::AnyTir;
use tx3_tir::model::assets::{AssetClass, CanonicalAssets};
use tx3_tir::model::core::{Utxo, UtxoRef};
use tx3_tir::model::v1beta0 as tir;
use tx3_tir::model::v1beta0::Expression as E;

pub const ADDRS: [(&str, u8); 3] = [("A", 0xa1), ("B", 0xb2), ("C", 0xc3)];

pub fn addr_bytes(tag: &str) -> Vec<u8> {
    let b = ADDRS.iter().find(|(t, _)| *t == tag).map(|(_, b)| *b).unwrap_or(0xee);
    let mut v = vec![0x60];
    v.extend(std::iter::repeat(b).take(28));
    v
}

pub fn class_of(k: &str) -> AssetClass {
    match k {
        "L" => AssetClass::Naked,
        "X" => AssetClass::Defined(vec![0x11; 28], b"X".to_vec()),
        "Y" => AssetClass::Defined(vec![0x22; 28], b"Y".to_vec()),
        _ => AssetClass::Defined(vec![0x33; 28], vec![]),
    }
}

#[derive(Clone, Debug)]
pub struct U {
    pub txid: u8,
    pub index: u32,
    pub addr: &'static str,
    pub assets: Vec<(&'static str, i128)>,
}

impl U {
    fn to_utxo(&self) -> Utxo {
        let mut a = CanonicalAssets::empty();
        for (k, n) in &self.assets {
            // keep zero entries out: a store would not index them
            if *n != 0 {
                a = a + CanonicalAssets::from_class_and_amount(class_of(k), *n);
            }
        }
        Utxo {
            r#ref: UtxoRef {
                txid: vec![self.txid; 32],
                index: self.index,
            },
            address: addr_bytes(self.addr),
            assets: a,
            datum: None,
            script: None,
        }
    }
    fn json(&self) -> Value {
        json!({"r": [self.txid, self.index], "a": self.addr,
               "v": self.assets.iter().filter(|(_, n)| *n != 0).map(|(k, n)| json!([k, int(*n)])).collect::<Vec<_>>()})
    }
}

#[derive(Clone, Debug)]
pub struct Q {
    pub name: String,
    pub addr: Option<&'static str>,
    pub min: Option<Vec<(&'static str, i128)>>,
    pub refs: Vec<(u8, u32)>,
    pub many: bool,
    pub collateral: bool,
}

impl Q {
    fn to_query(&self) -> tir::InputQuery {
        tir::InputQuery {
            address: match self.addr {
                Some(a) => E::Address(addr_bytes(a)),
                None => E::None,
            },
            min_amount: match &self.min {
                None => E::None,
                Some(xs) => E::Assets(
                    xs.iter()
                        .map(|(k, n)| {
                            let c = class_of(k);
                            tir::AssetExpr {
                                policy: c.policy().map(|p| E::Bytes(p.to_vec())).unwrap_or(E::None),
                                asset_name: c.name().map(|p| E::Bytes(p.to_vec())).unwrap_or(E::None),
                                amount: E::Number(*n),
                            }
                        })
                        .collect(),
                ),
            },
            r#ref: if self.refs.is_empty() {
                E::None
            } else {
                E::UtxoRefs(
                    self.refs
                        .iter()
                        .map(|(t, i)| UtxoRef {
                            txid: vec![*t; 32],
                            index: *i,
                        })
                        .collect(),
                )
            },
            many: self.many,
            collateral: self.collateral,
        }
    }
    fn json(&self) -> Value {
        json!({"name": self.name, "a": self.addr,
               "min": self.min.as_ref().map(|xs| xs.iter().map(|(k, n)| json!([k, int(*n)])).collect::<Vec<_>>()),
               "refs": self.refs.iter().map(|(t, i)| json!([t, i])).collect::<Vec<_>>(),
               "many": self.many, "collateral": self.collateral})
    }
}

fn build_tx(qs: &[Q], referenced: &[tx3_tir::model::core::UtxoRef]) -> tir::Tx {
    let mut t = empty_tx();
    t.fees = ada(0);
    // reference inputs naming UTxOs of the store: some of them end up selected by an input block as well
    // ("the script lives in the UTxO being spent"), which must not change what the body spends
    if !referenced.is_empty() {
        t.references.push(E::UtxoRefs(referenced.to_vec()));
    }
    for q in qs {
        let p = input_param(&q.name, q.to_query());
        if q.collateral {
            t.collateral.push(tir::Collateral { utxos: p });
        } else {
            t.inputs.push(tir::Input {
                name: q.name.clone(),
                utxos: p,
                redeemer: E::None,
            });
        }
    }
    t
}

fn selection_of(e: &E) -> Option<Vec<Value>> {
    match e {
        E::EvalParam(p) => match p.as_ref() {
            tir::Param::Set(E::UtxoSet(us)) => {
                Some(sorted_utxos(us).iter().map(|u| ref_json(&u.r#ref)).collect())
            }
            _ => None,
        },
        _ => None,
    }
}

fn resolve_err(e: &tx3_resolver::Error) -> String {
    use tx3_resolver::Error as RE;
    match e {
        RE::InputQueryTooBroad => "tooBroad".into(),
        RE::InputNotResolved(name, _, _) => format!("notResolved:{name}"),
        RE::ExpectedData(what, _) => format!("expectedData:{what}"),
        other => format!("other:{other}").chars().take(80).collect(),
    }
}

fn observe(store_us: &[U], qs: &[Q], with_body: bool) -> Value {
    let st = MemStore {
        utxos: store_us.iter().map(|u| u.to_utxo()).collect(),
    };
    let referenced: Vec<tx3_tir::model::core::UtxoRef> = if with_body && !st.utxos.is_empty() && qs.len() % 2 == 1 {
        let us: Vec<&Utxo> = st.utxos.iter().collect();
        let mut v = vec![us[0].r#ref.clone()];
        if us.len() > 2 {
            v.push(us[us.len() / 2].r#ref.clone());
        }
        v
    } else {
        vec![]
    };
    let tx = build_tx(qs, &referenced);
    let r = guarded(|| pollster::block_on(tx3_resolver::inputs::resolve(AnyTir::V1Beta0(tx), &st)));
    match r {
        Err(site) => json!({"panic": site}),
        Ok(Err(e)) => json!({"err": resolve_err(&e)}),
        Ok(Ok(AnyTir::V1Beta0(tx))) => {
            let mut sel: BTreeMap<String, Value> = BTreeMap::new();
            for i in &tx.inputs {
                if let Some(s) = selection_of(&i.utxos) {
                    // two blocks may carry one name: keep both observations
                    let key = if sel.contains_key(&i.name) {
                        format!("{}#dup", i.name)
                    } else {
                        i.name.clone()
                    };
                    sel.insert(key, Value::Array(s));
                }
            }
            for c in &tx.collateral {
                if let Some(s) = selection_of(&c.utxos) {
                    sel.insert("collateral".into(), Value::Array(s));
                }
            }
            let mut out = json!({"sel": sel});
            if with_body {
                let body = guarded(|| {
                    let pp = store::pparams(false, 44, 155_381, 4310, true);
                    let reduced = tx3_tir::reduce::reduce(tx.clone());
                    reduced
                        .map_err(|e| format!("reduce:{e}"))
                        .and_then(|t| {
                            // through the public compiler (not `compile::entry_point`, whose signature is internal)
                            use tx3_tir::compile::Compiler as _;
                            let mut c = store::compiler(pp, Some(0));
                            let payload = c
                                .compile(&tx3_tir::encoding::AnyTir::V1Beta0(t))
                                .map_err(|e| format!("compile:{e}"))?
                                .payload;
                            tx3_cardano::pallas::codec::minicbor::decode::<tx3_cardano::pallas::ledger::primitives::conway::Tx>(&payload)
                                .map_err(|e| format!("decode:{e}"))
                                .map(|ctx| {
                            let ins: Vec<Value> = ctx
                                .transaction_body
                                .inputs
                                .iter()
                                .map(|i| json!([hx(i.transaction_id.as_slice()), i.index]))
                                .collect();
                            let coll: Vec<Value> = ctx
                                .transaction_body
                                .collateral
                                .iter()
                                .flat_map(|c| c.iter())
                                .map(|i| json!([hx(i.transaction_id.as_slice()), i.index]))
                                .collect();
                            json!({"inputs": ins, "collateral": coll})
                                })
                        })
                });
                out["body"] = match body {
                    Ok(Ok(b)) => b,
                    Ok(Err(e)) => json!({"err": e}),
                    Err(site) => json!({"panic": site}),
                };
            }
            out
        }
    }
}

fn emit(out: &mut Emitter, gen: &str, store_us: &[U], qs: &[Q], with_body: bool) {
    out.case(gen, || {
        json!({
            "store": store_us.iter().map(|u| u.json()).collect::<Vec<_>>(),
            "queries": qs.iter().map(|q| q.json()).collect::<Vec<_>>(),
            "obs": observe(store_us, qs, with_body),
        })
    });
}

/// The query grid of the property over a given store.
fn query_grid(store_us: &[U]) -> Vec<Q> {
    let mut out = vec![];
    let mins: Vec<Option<Vec<(&'static str, i128)>>> = vec![
        None,
        Some(vec![]),
        Some(vec![("L", 0)]),
        Some(vec![("L", 1)]),
        Some(vec![("L", 2)]),
        Some(vec![("L", 3)]),
        Some(vec![("X", 1)]),
        Some(vec![("X", 2)]),
        Some(vec![("L", 1), ("X", 1)]),
        Some(vec![("L", 2), ("X", 2)]),
        Some(vec![("X", 1), ("Y", 1)]),
    ];
    let own = store_us.first().map(|u| (u.txid, u.index));
    let foreign = store_us.iter().find(|u| u.addr != "A").map(|u| (u.txid, u.index));
    let mut refsets: Vec<Vec<(u8, u32)>> = vec![vec![], vec![(0xdd, 9)]];
    if let Some(r) = own {
        refsets.push(vec![r]);
    }
    if let Some(r) = foreign {
        if Some(r) != own {
            refsets.push(vec![r]);
        }
    }
    for addr in [None, Some("A"), Some("B")] {
        for refs in &refsets {
            for min in &mins {
                for many in [false, true] {
                    for collateral in [false, true] {
                        out.push(Q {
                            name: if collateral { "collateral".into() } else { "src".into() },
                            addr,
                            min: min.clone(),
                            refs: refs.clone(),
                            many,
                            collateral,
                        });
                    }
                }
            }
        }
    }
    out
}

fn utxo_shapes() -> Vec<(&'static str, Vec<(&'static str, i128)>)> {
    let mut v = vec![];
    for addr in ["A", "B"] {
        for l in 0..3i128 {
            for x in 0..3i128 {
                v.push((addr, vec![("L", l), ("X", x)]));
            }
        }
    }
    v
}

fn store_from(shape_ix: &[usize], shapes: &[(&'static str, Vec<(&'static str, i128)>)]) -> Vec<U> {
    shape_ix
        .iter()
        .enumerate()
        .map(|(i, s)| U {
            // txids chosen so that the ref order differs from the listing order
            txid: [0x30u8, 0x10, 0x20, 0x05, 0x40][i % 5],
            index: (i as u32) % 2,
            addr: shapes[*s].0,
            assets: shapes[*s].1.clone(),
        })
        .collect()
}

fn random_query(r: &mut Rng, name: &str, store_us: &[U], collateral: bool) -> Q {
    let pick_ref = |r: &mut Rng| -> (u8, u32) {
        if !store_us.is_empty() && r.chance(4, 5) {
            let u = r.pick(store_us);
            (u.txid, u.index)
        } else {
            (0xdd, 9)
        }
    };
    let nrefs = match r.below(10) {
        0..=5 => 0,
        6..=8 => 1,
        _ => 2,
    };
    let mut refs = vec![];
    for _ in 0..nrefs {
        refs.push(pick_ref(r));
    }
    let min = match r.below(8) {
        0 => None,
        1 => Some(vec![]),
        _ => {
            let mut v = vec![];
            for k in ["L", "X", "Y"] {
                if r.chance(1, 2) {
                    v.push((k, r.range(0, 4) as i128));
                }
            }
            Some(v)
        }
    };
    Q {
        name: name.to_string(),
        addr: match r.below(4) {
            0 => None,
            1 => Some("B"),
            _ => Some("A"),
        },
        min,
        refs,
        many: r.chance(1, 2),
        collateral,
    }
}

fn random_store(r: &mut Rng, n: usize, big: bool) -> Vec<U> {
    (0..n)
        .map(|i| {
            let amt = |r: &mut Rng| -> i128 {
                if big {
                    match r.below(4) {
                        0 => 0,
                        1 => r.range(1, 5) as i128,
                        2 => r.range(1, 5_000_000) as i128,
                        _ => (r.next() as i128) & ((1i128 << 62) - 1),
                    }
                } else {
                    r.range(0, 3) as i128
                }
            };
            U {
                // half of the time from a pool of three transactions, so that one block often holds several outputs
                // of one transaction (the index keeps every reference distinct)
                txid: if r.chance(1, 2) { (r.below(3) + 1) as u8 } else { (r.below(200) + 1) as u8 },
                index: i as u32,
                addr: *r.pick(&["A", "A", "B", "C"]),
                assets: vec![("L", amt(r)), ("X", if r.chance(1, 2) { amt(r) } else { 0 }), ("Y", if r.chance(1, 3) { amt(r) } else { 0 })],
            }
        })
        .collect()
}

pub fn run(opts: &Opts, out: &mut Emitter, c04: bool) {
    let mut r = Rng::new(opts.seed ^ if c04 { 0x0404 } else { 0x0303 });

    // corpus: the reproduced defects
    {
        // C03: from A, ref sitting at B
        let st = vec![
            U { txid: 1, index: 0, addr: "A", assets: vec![("L", 5)] },
            U { txid: 2, index: 0, addr: "B", assets: vec![("L", 7)] },
        ];
        let q = Q { name: "src".into(), addr: Some("A"), min: Some(vec![("L", 1)]), refs: vec![(2, 0)], many: false, collateral: false };
        emit(out, "corpus", &st, &[q], true);
        // C04: two blocks with one name
        let q1 = Q { name: "src".into(), addr: Some("A"), min: Some(vec![("L", 1)]), refs: vec![], many: false, collateral: false };
        emit(out, "corpus-dup-name", &st, &[q1.clone(), q1], true);
    }

    if !c04 {
        let shapes = utxo_shapes();
        let n = shapes.len();
        // exhaustive: every store of up to 2 UTxOs (thorough: 3) x the whole query grid
        let mut stores: Vec<Vec<usize>> = vec![vec![]];
        for a in 0..n {
            stores.push(vec![a]);
            for b in a..n {
                stores.push(vec![a, b]);
                if opts.thorough {
                    for c in b..n {
                        stores.push(vec![a, b, c]);
                    }
                }
            }
        }
        for s in &stores {
            let st = store_from(s, &shapes);
            for q in query_grid(&st) {
                emit(out, "grid", &st, &[q], false);
            }
        }
        // sampled larger stores x grid sample
        for _ in 0..opts.n {
            let k = 3 + r.below(3) as usize;
            let ix: Vec<usize> = (0..k).map(|_| r.below(n as u64) as usize).collect();
            let st = store_from(&ix, &shapes);
            let grid = query_grid(&st);
            for _ in 0..6 {
                let q = r.pick(&grid).clone();
                emit(out, "grid-sampled", &st, &[q], false);
            }
        }
        // multi-UTxO stress: 3..6 UTxOs at one address with small amounts, a target that needs
        // several of them (joint excess matters: 5+5+8 for 12)
        for _ in 0..opts.n * 10 {
            let k = 3 + r.below(4) as usize;
            let mut st = vec![];
            let mut total_l = 0i128;
            let mut total_x = 0i128;
            for i in 0..k {
                let l = r.range(1, 10) as i128;
                let x = if r.chance(1, 3) { r.range(1, 6) as i128 } else { 0 };
                total_l += l;
                total_x += x;
                st.push(U {
                    txid: (r.below(200) + 1) as u8,
                    index: i as u32,
                    addr: if r.chance(1, 8) { "B" } else { "A" },
                    assets: vec![("L", l), ("X", x)],
                });
            }
            let mut min = vec![("L", r.range(1, total_l as i64 + 1) as i128)];
            if total_x > 0 && r.chance(1, 2) {
                min.push(("X", r.range(1, total_x as i64) as i128));
            }
            let q = Q { name: "src".into(), addr: Some("A"), min: Some(min), refs: vec![], many: true, collateral: false };
            emit(out, "many-stress", &st, &[q], false);
        }
        // two tokens held by different UTxOs of one address: no single UTxO matches every constraint,
        // only the union of the per-constraint matches covers the target
        for _ in 0..opts.n * 3 {
            let mut st = vec![];
            let k = 2 + r.below(4) as usize;
            let (mut tx, mut ty, mut tl) = (0i128, 0i128, 0i128);
            for i in 0..k {
                let l = r.range(1, 6) as i128;
                let (x, y) = match r.below(4) {
                    0 => (r.range(1, 5) as i128, 0),
                    1 => (0, r.range(1, 5) as i128),
                    2 => (0, 0),
                    _ => (r.range(0, 2) as i128, r.range(0, 2) as i128),
                };
                let at_a = !r.chance(1, 6);
                if at_a {
                    tx += x;
                    ty += y;
                    tl += l;
                }
                st.push(U { txid: (r.below(200) + 1) as u8, index: i as u32, addr: if at_a { "A" } else { "B" }, assets: vec![("L", l), ("X", x), ("Y", y)] });
            }
            let mut min = vec![];
            if tx > 0 {
                min.push(("X", r.range(1, tx as i64) as i128));
            }
            if ty > 0 {
                min.push(("Y", r.range(1, ty as i64) as i128));
            }
            if r.chance(1, 2) && tl > 0 {
                min.push(("L", r.range(1, tl as i64) as i128));
            }
            let q = Q { name: "src".into(), addr: if r.chance(5, 6) { Some("A") } else { None }, min: Some(min), refs: vec![], many: r.chance(4, 5), collateral: false };
            emit(out, "two-token-stress", &st, &[q], false);
        }
        // one party's wallet, around and beyond the window: every UTxO at the queried address, so that the strict
        // matches alone exceed the 50 the selector looks at
        for k in 0..(opts.n / 4).max(14) {
            let size = [49usize, 50, 51, 52, 64, 100, 300][k % 7];
            let st: Vec<U> = (0..size)
                .map(|i| U { txid: (i % 200 + 1) as u8, index: (i / 200) as u32, addr: "A",
                             assets: vec![("L", r.range(1, 5_000_000) as i128), ("X", if r.chance(1, 2) { r.range(1, 9) as i128 } else { 0 }), ("Y", 0)] })
                .collect();
            let coll = r.chance(1, 7);
            let q = random_query(&mut r, "src", &st, coll);
            emit(out, "wallet-over-window", &st, &[q], false);
        }
        // random: up to 50 UTxOs (and 51..80 to cross the window), large amounts
        for k in 0..opts.n {
            let size = if k % 5 == 4 { 51 + r.below(30) as usize } else { 1 + r.below(50) as usize };
            let st = random_store(&mut r, size, true);
            let coll = r.chance(1, 7);
            let q = random_query(&mut r, "src", &st, coll);
            emit(out, if size > 50 { "random-over-window" } else { "random" }, &st, &[q], false);
        }
    }

    // multi-block: k = 1..4 overlapping blocks (+ optional collateral)
    let rounds = if c04 { opts.n * 4 } else { opts.n / 2 };
    for _ in 0..rounds {
        let size = 1 + r.below(7) as usize;
        let big = r.chance(1, 3);
        let st = random_store(&mut r, size, big);
        let k = 1 + r.below(4) as usize;
        let mut qs = vec![];
        // overlapping: same party, same assets, overlapping refs
        let base = random_query(&mut r, "b0", &st, false);
        for i in 0..k {
            let mut q = if r.chance(2, 3) { base.clone() } else { random_query(&mut r, "x", &st, false) };
            q.name = match r.below(12) {
                0 if i > 0 => qs_name(&qs, 0),
                // names on both sides of "collateral", which is resolved in name order with the others
                _ => format!("{}{i}", r.pick(&["b", "b", "d", "p"])),
            };
            q.collateral = false;
            qs.push(q);
        }
        if r.chance(1, 3) {
            qs.push(random_query(&mut r, "collateral", &st, true));
        }
        emit(out, "multi", &st, &qs, true);
    }
    // a collateral block between two ordinary blocks in the order the resolver follows (names), all three drawing
    // on the same few plain UTxOs of one party: what the collateral lands on stays taken for the block after it
    for size in 1..=3usize {
        for amounts in 0..3 {
            for many_after in [false, true] {
                let st: Vec<U> = (0..size)
                    .map(|i| U { txid: (i + 1) as u8, index: 0, addr: "A", assets: vec![("L", [5i128, 5, 9][(i + amounts) % 3])] })
                    .collect();
                let plain = |name: &str, many: bool, coll: bool| Q { name: name.into(), addr: Some("A"), min: Some(vec![("L", 1)]), refs: vec![], many, collateral: coll };
                let qs = vec![plain("b0", false, false), plain("collateral", false, true), plain("p1", many_after, false)];
                emit(out, "collateral-between", &st, &qs, true);
                let qs2 = vec![plain("b0", false, false), plain("collateral", false, true), plain("p1", many_after, false), plain("q2", false, false)];
                emit(out, "collateral-between", &st, &qs2, true);
            }
        }
    }
    // names the source itself mentions: two ordinary blocks after the same plain UTxOs of one party, one of them under
    // a name built from a string literal of the crates (as it is, as a prefix, as a suffix); whatever the name, the two
    // must end up disjoint or the resolution must fail
    if c04 {
        let names = crate::common::magic_names();
        let plain = |name: &str, many: bool| Q { name: name.into(), addr: Some("A"), min: Some(vec![("L", 1)]), refs: vec![], many, collateral: false };
        for (k, lit) in names.iter().enumerate() {
            let lit = lit.trim_matches('_');
            if lit == "collateral" || lit.is_empty() {
                continue;
            }
            for (v, name) in [lit.to_string(), format!("{lit}_x"), format!("x_{lit}")].into_iter().enumerate() {
                // one UTxO (the second block must fail) or two (it must get the other one)
                let size = 1 + (k + v) % 2;
                let st: Vec<U> = (0..size).map(|i| U { txid: (i + 1) as u8, index: 0, addr: "A", assets: vec![("L", 5)] }).collect();
                let other = if name.as_str() < "m" { "zz" } else { "aa" };
                emit(out, "named-blocks", &st, &[plain(&name, false), plain(other, (k + v) % 3 == 0)], true);
            }
        }
    }
    // mixed scope: a block without an address (pinned to a reference, or after a token) and a block that draws from the
    // address where that very UTxO sits, in both name orders, with and without a second UTxO to fall back on: what the
    // one takes is taken for the other too, whatever their queries have in common
    for pinned in [false, true] {
        for spare in [false, true] {
            for rev in [false, true] {
                let mut st = vec![U { txid: 1, index: 0, addr: "A", assets: vec![("L", 5), ("X", 3)] }];
                if spare {
                    st.push(U { txid: 2, index: 1, addr: "A", assets: vec![("L", 5), ("X", 3)] });
                }
                let free = Q { name: if rev { "z0" } else { "a0" }.into(), addr: None, min: Some(vec![("X", 1)]), refs: if pinned { vec![(1u8, 0u32)] } else { vec![] }, many: false, collateral: false };
                let homed = Q { name: "m1".into(), addr: Some("A"), min: Some(vec![("L", 1)]), refs: vec![], many: false, collateral: false };
                emit(out, "mixed-scope", &st, &[free.clone(), homed.clone()], true);
                // ... and a collateral block pinned to a UTxO that holds a token (never pure lovelace, pinned or not)
                let coll = Q { name: "collateral".into(), addr: if rev { Some("A") } else { None }, min: Some(vec![("L", 1)]), refs: vec![(1u8, 0u32)], many: false, collateral: true };
                emit(out, "mixed-scope", &st, &[homed, coll], true);
            }
        }
    }
    // independent blocks: two or three blocks without an address, each pinned to its own reference or asking for a
    // token only its own UTxO holds - whatever one of them sees or takes is nothing the others can use, so each must be
    // bound exactly as it would be alone (in every name order)
    for kind in 0..3u8 {
        for n in 2..=3usize {
            for rev in [false, true] {
                let toks = ["X", "Y", "L"];
                let st: Vec<U> = (0..n)
                    .map(|i| U { txid: (i + 1) as u8, index: i as u32, addr: ["A", "B", "C"][i], assets: vec![("L", 5), (toks[i % 2], if kind == 0 { 0 } else { 3 })] })
                    .collect();
                let mut qs: Vec<Q> = (0..n)
                    .map(|i| Q {
                        name: format!("{}{i}", if rev { ["z", "m", "a"][i] } else { "b" }),
                        addr: None,
                        min: if kind == 0 { Some(vec![("L", 1)]) } else { Some(vec![(toks[i % 2], 1)]) },
                        refs: if kind != 1 { vec![((i + 1) as u8, i as u32)] } else { vec![] },
                        many: kind == 2 && i == 1,
                        collateral: false,
                    })
                    .collect();
                if kind == 1 {
                    // by token only: two blocks, each after the token one UTxO holds
                    qs.truncate(2);
                }
                emit(out, "independent-blocks", &st, &qs, true);
            }
        }
    }
    // outputs of one transaction whose indices are congruent modulo 2^8 and 2^16 (the reference holds 32 bits and
    // nothing bounds it): two or three blocks that each get one of them - the body must list each exactly once
    if c04 {
        for idx in [vec![1u32, 257], vec![1, 65_537], vec![0, 65_536, 131_072], vec![5, 65_541, u32::MAX]] {
            for pinned in [false, true] {
                let st: Vec<U> = idx.iter().map(|i| U { txid: 9, index: *i, addr: "A", assets: vec![("L", 5)] }).collect();
                let qs: Vec<Q> = idx
                    .iter()
                    .enumerate()
                    .map(|(k, i)| Q { name: format!("b{k}"), addr: Some("A"), min: Some(vec![("L", 1)]), refs: if pinned { vec![(9u8, *i)] } else { vec![] }, many: false, collateral: false })
                    .collect();
                emit(out, "wide-index", &st, &qs, true);
            }
        }
    }
    // blocks that take the plain-lovelace UTxOs of the same party — in both name orders
    for _ in 0..rounds / 3 {
        let mut st = vec![];
        let n_plain = 1 + r.below(3) as usize;
        let n_tok = 1 + r.below(2) as usize;
        for i in 0..n_plain {
            st.push(U { txid: (r.below(200) + 1) as u8, index: i as u32, addr: "A", assets: vec![("L", r.range(3, 9) as i128)] });
        }
        for i in 0..n_tok {
            st.push(U { txid: (r.below(200) + 1) as u8, index: (10 + i) as u32, addr: "A", assets: vec![("L", r.range(1, 3) as i128), ("X", r.range(1, 4) as i128)] });
        }
        if r.chance(1, 3) {
            st.push(U { txid: (r.below(200) + 1) as u8, index: 20, addr: "B", assets: vec![("L", 9), ("X", 9)] });
        }
        let tok_total: i128 = st.iter().filter(|u| u.addr == "A").map(|u| u.assets.iter().filter(|a| a.0 == "X").map(|a| a.1).sum::<i128>()).sum();
        let fuel = Q { name: String::new(), addr: Some("A"), min: Some(vec![("L", r.range(1, 8) as i128)]), refs: vec![], many: r.chance(1, 2), collateral: false };
        let tokens = Q { name: String::new(), addr: Some("A"), min: Some(vec![("X", r.range(1, tok_total.max(1) as i64) as i128), ("L", r.range(3, 12) as i128)]), refs: vec![], many: true, collateral: false };
        let mut qs = vec![];
        let (first, second) = if r.chance(2, 3) { (fuel, tokens) } else { (tokens, fuel) };
        let mut a = first;
        a.name = "b0".into();
        qs.push(a);
        if r.chance(1, 3) {
            let mut mid = random_query(&mut r, "b1", &st, false);
            mid.name = "b1".into();
            qs.push(mid);
        }
        let mut b = second;
        b.name = "b2".into();
        qs.push(b);
        emit(out, "multi-padding", &st, &qs, true);
    }
}

fn qs_name(qs: &[Q], i: usize) -> String {
    qs[i].name.clone()
}
