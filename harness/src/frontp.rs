//! Front-end probes (C12, C19; the analysis/lowering outcome is also what C13 judges):
//! source texts from (a) the example corpus, (b) random expansion of the grammar file itself
//! (read from the translator's grammar.json), (c) token-level mutations of both, (d) deep nesting,
//! (e) reproduced past failures — each run through the real pest parser (pair tree via the
//! `tx3_verif` hook), `parse_string`, `analyze`, `lower` and `Workspace::lower`.

use crate::common::{guarded, Emitter, Rng};
use crate::Opts;
use serde_json::{json, Value};
use std::collections::HashMap;

// ---------------------------------------------------------------- grammar

#[derive(Debug, Clone)]
pub enum GExpr {
    Str(String),
    Any,
    Soi,
    Eoi,
    Ranges(Vec<(char, char)>),
    Ref(usize),
    Seq(Box<GExpr>, Box<GExpr>),
    Choice(Box<GExpr>, Box<GExpr>),
    Star(Box<GExpr>),
    Plus(Box<GExpr>),
    Opt(Box<GExpr>),
    Not(Box<GExpr>),
}

pub struct GRule {
    pub name: String,
    pub atomic: bool,
    pub body: GExpr,
}

pub struct Grammar {
    pub rules: Vec<GRule>,
    pub index: HashMap<String, usize>,
    pub cost: Vec<usize>,
}

const INF: usize = usize::MAX / 4;

fn gexpr(v: &Value) -> GExpr {
    let k = v["k"].as_str().unwrap();
    let sub = |f: &str| Box::new(gexpr(&v[f]));
    match k {
        "str" => GExpr::Str(v["s"].as_str().unwrap().to_string()),
        "any" => GExpr::Any,
        "soi" => GExpr::Soi,
        "eoi" => GExpr::Eoi,
        "ranges" => GExpr::Ranges(
            v["r"]
                .as_array()
                .unwrap()
                .iter()
                .map(|p| (p[0].as_str().unwrap().chars().next().unwrap(), p[1].as_str().unwrap().chars().next().unwrap()))
                .collect(),
        ),
        "ref" => GExpr::Ref(v["i"].as_u64().unwrap() as usize),
        "seq" => GExpr::Seq(sub("a"), sub("b")),
        "choice" => GExpr::Choice(sub("a"), sub("b")),
        "star" => GExpr::Star(sub("e")),
        "plus" => GExpr::Plus(sub("e")),
        "opt" => GExpr::Opt(sub("e")),
        "not" => GExpr::Not(sub("e")),
        "and" => GExpr::Not(Box::new(GExpr::Not(sub("e")))),
        x => panic!("grammar.json: unknown node {x}"),
    }
}

impl Grammar {
    pub fn load() -> Grammar {
        let path = std::env::var("TX3_GRAMMAR_JSON").unwrap_or_else(|_| "/verif/work/grammar.json".to_string());
        let text = std::fs::read_to_string(&path).unwrap_or_else(|e| panic!("cannot read {path}: {e}"));
        let v: Value = serde_json::from_str(&text).unwrap();
        let mut rules = vec![];
        let mut index = HashMap::new();
        for (i, r) in v["rules"].as_array().unwrap().iter().enumerate() {
            let name = r["name"].as_str().unwrap().to_string();
            index.insert(name.clone(), i);
            rules.push(GRule { name, atomic: r["mode"] == "atomic", body: gexpr(&r["body"]) });
        }
        let mut g = Grammar { cost: vec![INF; rules.len()], rules, index };
        // least fix-point of the minimal expansion size
        loop {
            let mut changed = false;
            for i in 0..g.rules.len() {
                let c = g.cost_of(&g.rules[i].body);
                if c < g.cost[i] {
                    g.cost[i] = c;
                    changed = true;
                }
            }
            if !changed {
                break;
            }
        }
        g
    }

    fn cost_of(&self, e: &GExpr) -> usize {
        match e {
            GExpr::Str(s) => s.len(),
            GExpr::Any | GExpr::Ranges(_) => 1,
            GExpr::Soi | GExpr::Eoi | GExpr::Star(_) | GExpr::Opt(_) | GExpr::Not(_) => 0,
            GExpr::Ref(i) => self.cost[*i],
            GExpr::Seq(a, b) => (self.cost_of(a) + self.cost_of(b)).min(INF),
            GExpr::Choice(a, b) => self.cost_of(a).min(self.cost_of(b)),
            GExpr::Plus(e) => self.cost_of(e),
        }
    }

    fn alternatives<'a>(&'a self, e: &'a GExpr, out: &mut Vec<&'a GExpr>) {
        match e {
            GExpr::Choice(a, b) => {
                self.alternatives(a, out);
                self.alternatives(b, out);
            }
            x => out.push(x),
        }
    }

    /// Random expansion of `e`; with `budget == 0` the cheapest expansion.
    pub fn expand(&self, r: &mut Rng, e: &GExpr, budget: usize, atomic: bool, out: &mut String) {
        match e {
            GExpr::Str(s) => out.push_str(s),
            GExpr::Any => out.push(*r.pick(&ANY_ALPHABET)),
            GExpr::Soi | GExpr::Eoi | GExpr::Not(_) => {}
            GExpr::Ranges(rs) => {
                let (lo, hi) = *r.pick(rs);
                let c = char::from_u32(lo as u32 + r.below((hi as u32 - lo as u32 + 1) as u64) as u32).unwrap_or(lo);
                out.push(c);
            }
            GExpr::Ref(i) => {
                let rule = &self.rules[*i];
                self.expand(r, &rule.body, budget.saturating_sub(1), atomic || rule.atomic, out)
            }
            GExpr::Seq(a, b) => {
                self.expand(r, a, budget, atomic, out);
                if !atomic {
                    self.separator(r, out);
                }
                self.expand(r, b, budget, atomic, out);
            }
            GExpr::Choice(_, _) => {
                let mut alts = vec![];
                self.alternatives(e, &mut alts);
                let pick = if budget == 0 {
                    *alts.iter().min_by_key(|a| self.cost_of(a)).unwrap()
                } else {
                    *r.pick(&alts)
                };
                self.expand(r, pick, budget, atomic, out);
            }
            GExpr::Star(x) | GExpr::Plus(x) => {
                let min = if matches!(e, GExpr::Plus(_)) { 1 } else { 0 };
                let n = if budget == 0 {
                    min
                } else {
                    // atomic repetitions are the characters of a token: make them longer
                    let extra = if atomic { r.below(9) } else { [0, 0, 1, 1, 1, 2, 2, 3][r.below(8) as usize] };
                    min + extra as usize
                };
                for k in 0..n {
                    if k > 0 && !atomic {
                        self.separator(r, out);
                    }
                    self.expand(r, x, budget, atomic, out);
                }
            }
            GExpr::Opt(x) => {
                if budget > 0 && r.chance(1, 2) {
                    self.expand(r, x, budget, atomic, out);
                }
            }
        }
    }

    fn separator(&self, r: &mut Rng, out: &mut String) {
        match r.below(20) {
            0..=11 => out.push(' '),
            12..=13 => {}
            14..=15 => out.push('\n'),
            16 => out.push_str("  \t"),
            17 => out.push_str(" // note é✓\n"),
            18 => out.push_str(" /* 😀 */ "),
            _ => out.push_str("\r\n"),
        }
    }
}

const ANY_ALPHABET: [char; 28] = ['a', 'b', 'Z', '0', '7', ' ', '_', '-', '.', ',', 'é', '✓', '😀', 'ß', ':', '#',
    // characters other notations give a meaning to (escapes, quotes, comment and block delimiters, control characters)
    '\\', '\'', '\t', '/', '*', '{', '}', '$', '%', '\n', '\u{0}', '\\'];

// ---------------------------------------------------------------- tokens and mutations

fn tokens(src: &str) -> Vec<String> {
    let cs: Vec<char> = src.chars().collect();
    let mut out = vec![];
    let mut i = 0;
    while i < cs.len() {
        let c = cs[i];
        let start = i;
        if c.is_whitespace() {
            while i < cs.len() && cs[i].is_whitespace() {
                i += 1;
            }
        } else if c == '/' && i + 1 < cs.len() && cs[i + 1] == '/' {
            while i < cs.len() && cs[i] != '\n' {
                i += 1;
            }
        } else if c == '"' {
            i += 1;
            while i < cs.len() && cs[i] != '"' {
                i += 1;
            }
            i = (i + 1).min(cs.len());
        } else if c.is_ascii_alphanumeric() || c == '_' {
            while i < cs.len() && (cs[i].is_ascii_alphanumeric() || cs[i] == '_') {
                i += 1;
            }
        } else if c == ':' && i + 1 < cs.len() && cs[i + 1] == ':' {
            i += 2;
        } else if c == '.' && i + 2 < cs.len() && cs[i + 1] == '.' && cs[i + 2] == '.' {
            i += 3;
        } else {
            i += 1;
        }
        out.push(cs[start..i].iter().collect());
    }
    out
}

fn significant(toks: &[String]) -> Vec<usize> {
    (0..toks.len()).filter(|&i| !toks[i].chars().all(|c| c.is_whitespace())).collect()
}

fn stretch(r: &mut Rng, tok: &str) -> String {
    let first = tok.chars().next().unwrap_or(' ');
    if tok.starts_with("0x") {
        match r.below(4) {
            0 => format!("{tok}a"),
            1 => format!("0x{}", "ab".repeat(40)),
            2 => format!("{tok}#{}", "9".repeat(1 + r.below(30) as usize)),
            _ => "0x1".to_string(),
        }
    } else if first.is_ascii_digit() {
        match r.below(5) {
            0 => "9".repeat(19 + r.below(25) as usize),
            1 => format!("-{}", "9".repeat(19 + r.below(25) as usize)),
            2 => "9223372036854775807".to_string(),
            3 => "9223372036854775808".to_string(),
            _ => "-9223372036854775809".to_string(),
        }
    } else if first == '"' {
        match r.below(3) {
            0 => format!("\"{}\"", "é✓😀".repeat(1 + r.below(30) as usize)),
            1 => format!("\"{}\"", "x".repeat(60 + r.below(20) as usize)),
            _ => "\"".to_string(),
        }
    } else if first.is_ascii_alphabetic() {
        match r.below(3) {
            0 => format!("{tok}_{}", "z".repeat(r.below(40) as usize)),
            1 => format!("{tok}é"),
            _ => tok.to_uppercase(),
        }
    } else {
        tok.to_string()
    }
}

const PUNCT: [&str; 18] = ["{", "}", "(", ")", "[", "]", ",", ":", ";", "::", "...", "+", "-", "!", ".", "*", "?", "="];

pub fn mutate(r: &mut Rng, src: &str, donor: &str) -> (String, &'static str) {
    let mut toks = tokens(src);
    let sig = significant(&toks);
    if sig.is_empty() {
        return (src.to_string(), "none");
    }
    let at = *r.pick(&sig);
    let kind = match r.below(9) {
        0 => {
            toks.remove(at);
            "delete"
        }
        1 => {
            let t = toks[at].clone();
            toks.insert(at, t);
            "duplicate"
        }
        2 => {
            let other = *r.pick(&sig);
            toks.swap(at, other);
            "swap"
        }
        3 => {
            let d = tokens(donor);
            if !d.is_empty() {
                let from = r.below(d.len() as u64) as usize;
                let len = 1 + r.below(8) as usize;
                let piece: Vec<String> = d[from..(from + len).min(d.len())].to_vec();
                for (k, p) in piece.into_iter().enumerate() {
                    toks.insert(at + k, p);
                }
            }
            "splice"
        }
        4 | 5 => {
            // stretch a literal if there is one nearby, else this token
            let lits: Vec<usize> = sig
                .iter()
                .copied()
                .filter(|&i| {
                    let c = toks[i].chars().next().unwrap();
                    c.is_ascii_digit() || c == '"'
                })
                .collect();
            let target = if !lits.is_empty() && r.chance(3, 4) { *r.pick(&lits) } else { at };
            toks[target] = stretch(r, &toks[target].clone());
            "stretch"
        }
        6 => {
            toks[at] = r.pick(&PUNCT).to_string();
            "punct"
        }
        7 => {
            toks.insert(at, r.pick(&["/* ✓ */", "// é\n", "\n\n", "😀", "\u{00a0}"]).to_string());
            "insert-trivia"
        }
        _ => {
            // truncate
            toks.truncate(at);
            "truncate"
        }
    };
    (toks.concat(), kind)
}

// ---------------------------------------------------------------- observation

fn span_json(s: &tx3_lang::ast::Span) -> Value {
    serde_json::to_value(s).unwrap_or(Value::Null)
}

/// What the diagnostic hands to whoever displays it: the first label as (offset, length), and whether the text the
/// diagnostic carries can be read at that place.
fn label_json(d: &dyn miette::Diagnostic) -> Value {
    // the conversion of a span into a display span is code of the crate too: a span it cannot convert (start after
    // end) must show as such, not take the whole observation with it
    let r = guarded(|| {
        let Some(l) = d.labels().and_then(|mut ls| ls.next()) else { return Value::Null };
        let readable = d.source_code().map(|src| src.read_span(l.inner(), 0, 0).is_ok());
        json!({"offset": l.offset(), "len": l.len(), "readable": readable})
    });
    r.unwrap_or_else(|site| json!({"panic": site}))
}

fn analysis_error_json(e: &tx3_lang::analyzing::Error) -> Value {
    use tx3_lang::analyzing::Error as E;
    let (kind, name) = match e {
        E::DuplicateDefinition(n) => ("DuplicateDefinition", Some(n.clone())),
        E::NotInScope(x) => ("NotInScope", Some(x.name.clone())),
        E::NeedsParentScope => ("NeedsParentScope", None),
        E::InvalidSymbol(x) => ("InvalidSymbol", Some(x.got.clone())),
        E::InvalidTargetType(x) => ("InvalidTargetType", Some(x.got.clone())),
        E::MetadataSizeLimitExceeded(_) => ("MetadataSizeLimitExceeded", None),
        E::MetadataInvalidKeyType(x) => ("MetadataInvalidKeyType", Some(x.key_type.clone())),
        E::InvalidOptionalOutput(x) => ("InvalidOptionalOutput", Some(x.name.clone())),
        #[allow(unreachable_patterns)]
        _ => ("Other", None),
    };
    json!({"kind": kind, "name": name, "span": span_json(e.span()), "label": label_json(e)})
}

/// Seconds after which one source text counts as not terminating.
pub const TIMEOUT_S: u64 = 20;

/// Seconds given to a text whose definitions make the analyzer's repeated passes copy a large symbol graph.
pub const ISOLATED_TIMEOUT_S: u64 = 4;
/// Number of reference walks (summed over definitions and passes) from which a text is analysed in a process
/// of its own.
pub const GROWTH_LIMIT: u64 = 50_000;
/// Seconds given to a text outside the growth classes that did not come back in `TIMEOUT_S` when it is tried
/// again alone in a process of its own (a loaded machine must not look like non-termination).
pub const RETRY_TIMEOUT_S: u64 = 180;

fn names_at(v: &Value, key: &str, out: &mut Vec<String>) {
    // every `{key: {"value": name, ..}}` below v
    match v {
        Value::Object(m) => {
            for (k, x) in m {
                if k == key {
                    if let Some(n) = x.get("value").and_then(|n| n.as_str()) {
                        out.push(n.to_string());
                    }
                }
                names_at(x, key, out);
            }
        }
        Value::Array(a) => a.iter().for_each(|x| names_at(x, key, out)),
        _ => {}
    }
}

/// what `len` passes copy: the number of reference walks of length <= k from every node, summed over the nodes
/// and over k = 1..len (saturating)
fn walks(edges: &[Vec<usize>], len: usize) -> u64 {
    let n = edges.len();
    let mut w = vec![1u64; n];
    let mut total = 0u64;
    for _ in 0..len {
        let mut next = vec![1u64; n];
        for v in 0..n {
            for &u in &edges[v] {
                next[v] = next[v].saturating_add(w[u]);
            }
        }
        w = next;
        for x in &w {
            total = total.saturating_add(*x);
        }
    }
    total
}

/// How much the analyzer's passes have to copy for this program: every pass attaches to each identifier a
/// copy of the definition it names (as annotated by the previous pass), so the symbol graph below a
/// definition has one node per reference walk.  Returns (walks through type/alias definitions over the
/// passes `resolve_types_and_aliases` will run, walks through locals/inputs over the ten passes of a
/// transaction).
pub fn pass_growth(ast: &Value) -> (u64, u64) {
    let empty = vec![];
    let arr = |k: &str| ast.get(k).and_then(|x| x.as_array()).unwrap_or(&empty).clone();
    let name_of = |d: &Value| d.get("name").and_then(|n| n.get("value")).and_then(|n| n.as_str()).unwrap_or("").to_string();
    // --- definitions
    let types = arr("types");
    let aliases = arr("aliases");
    let mut index: std::collections::HashMap<String, usize> = Default::default();
    let mut refs: Vec<Vec<String>> = vec![];
    for t in types.iter() {
        index.insert(name_of(t), refs.len());
        let mut r = vec![];
        names_at(t.get("cases").unwrap_or(&Value::Null), "Custom", &mut r);
        refs.push(r);
    }
    let first_alias = refs.len();
    for a in aliases.iter() {
        index.insert(name_of(a), refs.len());
        let mut r = vec![];
        names_at(&json!({"t": a.get("alias_type").cloned().unwrap_or(Value::Null)}), "Custom", &mut r);
        refs.push(r);
    }
    let mut scope: std::collections::HashSet<String> = index.keys().cloned().collect();
    scope.insert("Ada".into());
    for k in ["parties", "policies", "assets"] {
        for d in arr(k).iter() {
            scope.insert(name_of(d));
        }
    }
    if let Some(fs) = ast.get("env").and_then(|e| e.get("fields")).and_then(|f| f.as_array()) {
        for f in fs {
            if let Some(n) = f.get("name").and_then(|n| n.as_str()) {
                scope.insert(n.to_string());
            }
        }
    }
    let all_in_scope = refs.iter().all(|r| r.iter().all(|n| scope.contains(n)));
    // alias chains: resolved when they end in a type definition
    let mut chain_ok = true;
    let mut longest = 0usize;
    for (i, a) in aliases.iter().enumerate() {
        let mut cur = first_alias + i;
        let mut steps = 0usize;
        loop {
            let direct = if cur >= first_alias { aliases[cur - first_alias].get("alias_type").and_then(|t| t.get("Custom")).and_then(|c| c.get("value")).and_then(|n| n.as_str()) } else { None };
            match direct.and_then(|n| index.get(n)) {
                Some(&nx) if nx < first_alias => {
                    steps += 1;
                    break;
                }
                Some(&nx) if steps < aliases.len() + 1 => {
                    cur = nx;
                    steps += 1;
                }
                _ => {
                    chain_ok = false;
                    break;
                }
            }
        }
        let _ = a;
        longest = longest.max(steps);
    }
    // `resolve_types_and_aliases`: until everything counts as resolved, at most one pass per definition (+1), never
    // more than 100
    let passes = if all_in_scope && chain_ok { 1 + longest } else { (refs.len() + 1).min(100) };
    let edges: Vec<Vec<usize>> = refs.iter().map(|r| r.iter().filter_map(|n| index.get(n).copied()).collect()).collect();
    let type_walks = walks(&edges, passes);
    // --- transactions
    let mut tx_walks = 0u64;
    for tx in arr("txs").iter() {
        let mut idx: std::collections::HashMap<String, usize> = Default::default();
        let mut bodies: Vec<Value> = vec![];
        if let Some(ls) = tx.get("locals").and_then(|l| l.get("assigns")).and_then(|a| a.as_array()) {
            for l in ls {
                idx.insert(name_of(l), bodies.len());
                bodies.push(l.get("value").cloned().unwrap_or(Value::Null));
            }
        }
        if let Some(is) = tx.get("inputs").and_then(|a| a.as_array()) {
            for i in is {
                if let Some(n) = i.get("name").and_then(|n| n.as_str()) {
                    idx.insert(n.to_string(), bodies.len());
                    bodies.push(i.get("fields").cloned().unwrap_or(Value::Null));
                }
            }
        }
        let e: Vec<Vec<usize>> = bodies
            .iter()
            .map(|b| {
                let mut r = vec![];
                names_at(b, "Identifier", &mut r);
                r.iter().filter_map(|n| idx.get(n).copied()).collect()
            })
            .collect();
        tx_walks = tx_walks.max(walks(&e, 10));
    }
    (type_walks, tx_walks)
}

/// Tags of the structural class (computed from the parsed tree alone, before any analysis).
pub fn growth_tags(ast: &tx3_lang::ast::Program) -> Vec<String> {
    let v = serde_json::to_value(ast).unwrap_or(Value::Null);
    let (t, x) = pass_growth(&v);
    let mut tags = vec![];
    if t >= GROWTH_LIMIT {
        tags.push("type-symbol-growth".to_string());
    }
    // the type symbols are copied into every identifier of a transaction that names a parameter of that type
    if x >= GROWTH_LIMIT || (t < GROWTH_LIMIT && x.saturating_mul(t / 100 + 1) >= GROWTH_LIMIT) {
        tags.push("tx-symbol-growth".to_string());
    }
    tags
}

/// Runs `observe` of `mode` (C12-child / C13-child) on `input` in a process of its own, killed after
/// `ISOLATED_TIMEOUT_S` seconds, so that an analysis that copies without end takes no memory with it.
pub fn observe_isolated(mode: &str, input: &str, tags: &[String]) -> Value {
    static N: std::sync::atomic::AtomicU64 = std::sync::atomic::AtomicU64::new(0);
    let k = N.fetch_add(1, std::sync::atomic::Ordering::SeqCst);
    let path = std::env::temp_dir().join(format!("tx3verif-iso-{}-{}.tx3", std::process::id(), k));
    if std::fs::write(&path, input).is_err() {
        return json!({"timeout": 0, "note": "scratch file", "class_tags": tags});
    }
    let exe = std::env::current_exe().unwrap();
    let child = std::process::Command::new(exe)
        .args([mode, "--replay", path.to_str().unwrap()])
        .stdout(std::process::Stdio::piped())
        .stderr(std::process::Stdio::null())
        .spawn();
    // a text outside the growth classes gets the generous limit: it is either a first run of the
    // definition-graph family or the second chance of a text that timed out in-process
    let limit = if tags.is_empty() { RETRY_TIMEOUT_S } else { ISOLATED_TIMEOUT_S };
    let mut res = json!({"timeout": limit});
    if let Ok(mut c) = child {
        let t0 = std::time::Instant::now();
        let mut out = c.stdout.take().unwrap();
        let reader = std::thread::spawn(move || {
            let mut s = String::new();
            let _ = std::io::Read::read_to_string(&mut out, &mut s);
            s
        });
        loop {
            match c.try_wait() {
                Ok(Some(_)) => {
                    if let Ok(s) = reader.join() {
                        if let Ok(v) = serde_json::from_str::<Value>(s.trim()) {
                            res = v;
                        } else {
                            res = json!({"abort": "the process died without an answer"});
                        }
                    }
                    break;
                }
                Ok(None) if t0.elapsed().as_secs() >= limit => {
                    let _ = c.kill();
                    let _ = c.wait();
                    break;
                }
                Ok(None) => std::thread::sleep(std::time::Duration::from_millis(20)),
                Err(_) => break,
            }
        }
    }
    let _ = std::fs::remove_file(&path);
    if let Value::Object(m) = &mut res {
        m.insert("class_tags".into(), json!(tags));
    }
    res
}

/// Child side of `observe_isolated`.
pub fn run_child(opts: &Opts, c13: bool) {
    let text = opts.replay.as_ref().and_then(|p| std::fs::read_to_string(p).ok()).unwrap_or_default();
    let v = if c13 { crate::c13::observe_unisolated(&text) } else { observe_inner(&text) };
    println!("{v}");
}

/// The class tags of a text (empty when it does not parse, or parses into something small).
pub fn class_of(input: &str) -> Vec<String> {
    match guarded(|| tx3_lang::parsing::parse_string(input)) {
        Ok(Ok(ast)) => growth_tags(&ast),
        _ => vec![],
    }
}

/// Everything the front end does with one source text, on a thread with the main thread's stack
/// size; a text that takes longer than `TIMEOUT_S` is reported as a timeout (its thread is left
/// behind).  A text of a growth class runs in a process of its own instead.
pub fn observe(input: &str) -> Value {
    let (tx, rx) = std::sync::mpsc::channel();
    let text = input.to_string();
    let spawned = std::thread::Builder::new().stack_size(8 << 20).spawn(move || {
        let tags = class_of(&text);
        let v = if tags.is_empty() { observe_inner(&text) } else { json!({"isolate": tags}) };
        let _ = tx.send(v);
    });
    if spawned.is_err() {
        return json!({"timeout": 0, "note": "thread spawn failed"});
    }
    match rx.recv_timeout(std::time::Duration::from_secs(TIMEOUT_S)) {
        Ok(v) => match v.get("isolate") {
            Some(tags) => {
                let tags: Vec<String> = tags.as_array().map(|a| a.iter().filter_map(|t| t.as_str().map(String::from)).collect()).unwrap_or_default();
                observe_isolated("C12-child", input, &tags)
            }
            None => v,
        },
        // second chance, alone in a process of its own and with a generous limit
        Err(_) => observe_isolated("C12-child", input, &[]),
    }
}

fn observe_inner(input: &str) -> Value {
    let tree = match guarded(|| tx3_lang::parsing::verif_pair_tree(input)) {
        Ok(Ok(t)) => json!({"ok": t}),
        Ok(Err(e)) => json!({"err": {"start": e.span.start, "end": e.span.end}}),
        Err(site) => json!({"panic": site}),
    };
    let mut analyze = Value::Null;
    let mut lower = Value::Null;
    let mut facade = Value::Null;
    let parse = match guarded(|| tx3_lang::parsing::parse_string(input)) {
        Ok(Ok(mut ast)) => {
            match guarded(|| tx3_lang::analyzing::analyze(&mut ast)) {
                Ok(report) => {
                    let errs: Vec<Value> = report.errors.iter().map(analysis_error_json).collect();
                    if report.errors.is_empty() {
                        let names: Vec<String> = ast.txs.iter().map(|t| t.name.value.clone()).collect();
                        let mut rs = vec![];
                        for n in names {
                            let r = match guarded(|| tx3_lang::lowering::lower(&ast, &n)) {
                                Ok(Ok(_)) => "ok".to_string(),
                                Ok(Err(e)) => format!("err:{}", variant_name(&format!("{e:?}"))),
                                Err(site) => format!("panic:{site}"),
                            };
                            rs.push(json!({"tx": n, "r": r}));
                        }
                        lower = json!(rs);
                    }
                    analyze = json!({"errors": errs});
                }
                Err(site) => analyze = json!({"panic": site}),
            }
            json!({"ok": true})
        }
        Ok(Err(e)) => {
            let same = e.src == input;
            json!({"err": {"message": e.message.chars().take(200).collect::<String>(), "src_is_input": same,
                           "src": if same { Value::Null } else { json!(e.src) }, "span": span_json(&e.span), "label": label_json(&e)}})
        }
        Err(site) => json!({"panic": site}),
    };
    if parse.get("ok").is_some() {
        facade = match guarded(|| {
            let mut ws = tx3_lang::Workspace::from_string(input.to_string());
            ws.lower().map(|_| ()).map_err(|e| variant_name(&format!("{e:?}")))
        }) {
            Ok(Ok(())) => json!("ok"),
            Ok(Err(e)) => json!(format!("err:{e}")),
            Err(site) => json!(format!("panic:{site}")),
        };
    }
    json!({"tree": tree, "parse": parse, "analyze": analyze, "lower": lower, "facade": facade})
}

fn variant_name(dbg: &str) -> String {
    dbg.chars().take_while(|c| c.is_ascii_alphanumeric() || *c == '_').collect()
}

// ---------------------------------------------------------------- corpus

/// Small programs for the features no file under examples/ exercises (found by measuring which lines of the crates
/// the generated cases never reach): stake delegation, a named publish block with a datum, policies given by a
/// constructor with every combination of fields, parameters of every type, metadata keys and values of every kind.
pub fn extra_corpus() -> Vec<(String, String)> {
    let mut out: Vec<(String, String)> = vec![];
    let frame = |body: &str, params: &str, defs: &str| -> String {
        format!("party Sender;\nparty Receiver;\n{defs}\ntx t({params}) {{\n    input source {{\n        from: Sender,\n        min_amount: Ada(quantity) + fees,\n    }}\n{body}    output {{\n        to: Receiver,\n        amount: source - fees,\n    }}\n}}\n")
    };
    out.push(("x-stake-delegation.tx3".into(), frame("    cardano::stake_delegation_certificate {\n        pool: pool,\n        stake: Sender,\n    }\n", "quantity: Int, pool: Bytes", "")));
    out.push(("x-stake-delegation-literal.tx3".into(), frame("    cardano::stake_delegation_certificate {\n        pool: 0x11111111111111111111111111111111111111111111111111111111,\n        stake: 0x22222222222222222222222222222222222222222222222222222222,\n    }\n", "quantity: Int", "")));
    out.push(("x-vote-delegation.tx3".into(), frame("    cardano::vote_delegation_certificate {\n        drep: drep,\n        stake: Sender,\n    }\n", "quantity: Int, drep: Bytes", "")));
    out.push(("x-publish-named.tx3".into(), frame("    cardano::publish registry {\n        to: Receiver,\n        amount: Ada(quantity),\n        datum: R { a: quantity, b: 0xab, },\n        version: 2,\n        script: 0x5101010023259800a518a4d136564004ae69,\n    }\n", "quantity: Int", "type R {\n    a: Int,\n    b: Bytes,\n}\n")));
    out.push(("x-publish-no-script.tx3".into(), frame("    cardano::publish {\n        to: Receiver,\n        amount: Ada(quantity),\n        datum: (),\n    }\n", "quantity: Int", "")));
    for (k, fields) in ["hash: 0xABCDEF1234,", "hash: 0xABCDEF1234,\n    script: 0xABCDEF1234,", "hash: 0xABCDEF1234,\n    ref: 0xABCDEF1234,", "hash: 0xABCDEF1234,\n    script: 0xABCDEF1234,\n    ref: 0xABCDEF1234,", "script: 0xABCDEF1234,", ""].iter().enumerate() {
        let defs = format!("policy P {{\n    {fields}\n}}\n");
        out.push((format!("x-policy-constructor-{k}.tx3"), frame("    mint {\n        amount: AnyAsset(P, \"TK\", quantity),\n        redeemer: (),\n    }\n", "quantity: Int", &defs)));
        out.push((format!("x-policy-constructor-address-{k}.tx3"), frame("    output {\n        to: P,\n        amount: Ada(quantity),\n    }\n", "quantity: Int", &defs)));
    }
    // parameters of every type, each used in a datum
    out.push(("x-param-types.tx3".into(), frame(
        "    output {\n        to: who,\n        amount: Ada(quantity),\n        datum: D { flag: flag, blob: blob, items: items, table: table, anchor: anchor, inner: inner, n: n, },\n    }\n",
        "quantity: Int, flag: Bool, blob: Bytes, who: Address, anchor: UtxoRef, items: List<Int>, table: Map<Int, Bytes>, inner: R, n: Amount",
        "type R {\n    a: Int,\n}\ntype Amount = Int;\ntype D {\n    flag: Bool,\n    blob: Bytes,\n    items: List<Int>,\n    table: Map<Int, Bytes>,\n    anchor: UtxoRef,\n    inner: R,\n    n: Amount,\n}\n")));
    // metadata: keys and values of every kind
    let keys = ["1", "674", "0", "-1", "18446744073709551615", "\"k\"", "0xab", "quantity", "blob", "Sender", "[1,]", "{1: 2,}", "R { a: 1, }", "()", "true", "1 + 1"];
    let vals = ["1", "\"memo\"", "0xab", "quantity", "blob", "[1, 2,]", "{1: 2,}", "R { a: 1, }", "()", "true", "Sender",
        "\"0123456789012345678901234567890123456789012345678901234567890123456789\"",
        "0x0101010101010101010101010101010101010101010101010101010101010101010101010101010101010101010101010101010101010101010101010101010101",
        "0x010101010101010101010101010101010101010101010101010101010101010101010101010101010101010101010101010101010101010101010101010101010", "\"\"", "0x"];
    for (i, k) in keys.iter().enumerate() {
        let v = vals[i % vals.len()];
        out.push((format!("x-metadata-key-{i}.tx3"), frame(&format!("    metadata {{\n        {k}: {v},\n    }}\n"), "quantity: Int, blob: Bytes", "type R {\n    a: Int,\n}\n")));
    }
    for (i, v) in vals.iter().enumerate() {
        out.push((format!("x-metadata-value-{i}.tx3"), frame(&format!("    metadata {{\n        1: {v},\n        2: {v},\n    }}\n"), "quantity: Int, blob: Bytes", "type R {\n    a: Int,\n}\n")));
    }
    out
}

pub fn example_corpus() -> Vec<(String, String)> {
    let dir = std::env::var("TX3_REPO").unwrap_or_else(|_| "/repo".to_string()) + "/examples";
    let mut out = extra_corpus();
    if let Ok(rd) = std::fs::read_dir(&dir) {
        let mut names: Vec<_> = rd.filter_map(|e| e.ok()).map(|e| e.path()).filter(|p| p.extension().map(|x| x == "tx3").unwrap_or(false)).collect();
        names.sort();
        for p in names {
            if let Ok(text) = std::fs::read_to_string(&p) {
                out.push((p.file_name().unwrap().to_string_lossy().to_string(), text));
            }
        }
    }
    out
}

/// Inputs that made the front end panic or mislabel at the pinned commit.
/// A program made of type, alias and local definitions referring to each other at random: self-reference,
/// cycles, chains, undefined names, aliases of built-in types, several references to one definition.
pub fn definition_graph_source(r: &mut Rng, fan: bool) -> String {
    let nt = 1 + r.below(4) as usize;
    let na = r.below(4) as usize;
    let tname = |i: usize| format!("T{i}");
    let aname = |i: usize| format!("A{i}");
    let mut any_ty = |r: &mut Rng| -> String {
        match r.below(10) {
            0 => "Int".into(),
            1 => "Bytes".into(),
            2 => "Undefined".into(),
            3 | 4 if na > 0 => aname(r.below(na as u64) as usize),
            5 => format!("List<{}>", tname(r.below(nt as u64) as usize)),
            _ => tname(r.below(nt as u64) as usize),
        }
    };
    let mut s = String::from("party P;\n");
    for i in 0..na {
        let target = match r.below(4) {
            0 => "Int".to_string(),
            1 => aname(r.below(na as u64) as usize),
            _ => tname(r.below(nt as u64) as usize),
        };
        s.push_str(&format!("type {} = {};\n", aname(i), target));
    }
    for i in 0..nt {
        let nf = 1 + r.below(if fan { 4 } else { 3 }) as usize;
        s.push_str(&format!("type {} {{\n", tname(i)));
        for f in 0..nf {
            let ty = if r.chance(1, 3) { "Int".to_string() } else { any_ty(r) };
            s.push_str(&format!("  f{f}: {ty},\n"));
        }
        s.push_str("}\n");
    }
    let nl = r.below(5) as usize;
    s.push_str(&format!("tx t(x: Int, rec: {}) {{\n", tname(0)));
    if nl > 0 {
        s.push_str("  locals {\n");
        for i in 0..nl {
            let wide = fan && r.chance(1, 2);
            let terms = 1 + r.below(if wide { 9 } else { 3 }) as usize;
            let mut e = vec![];
            for _ in 0..terms {
                e.push(match r.below(6) {
                    0 => "x".to_string(),
                    1 => "1".to_string(),
                    2 => "rec.f0".to_string(),
                    3 => "src".to_string(),
                    _ => format!("l{}", r.below(nl as u64)),
                });
            }
            s.push_str(&format!("    l{i}: {},\n", e.join(" + ")));
        }
        s.push_str("  }\n");
    }
    let l = if nl > 0 { format!("l{}", r.below(nl as u64)) } else { "x".into() };
    s.push_str(&format!("  input src {{\n    from: P,\n    min_amount: Ada({l}),\n  }}\n"));
    s.push_str(&format!("  output {{\n    to: P,\n    amount: src - fees,\n    datum: {} {{ f0: {l}, }},\n  }}\n}}\n", if na > 0 && r.chance(1, 2) { aname(0) } else { tname(0) }));
    s
}

pub const PAST_FAILURES: [&str; 15] = [
    "tx t() { output { to: A, amount: Ada(99999999999999999999), } }",
    "tx t() { output { to: A, amount: Ada(-9223372036854775809), } }",
    "type T { A(Int,), }",
    "type T {\n  A(Int, Bytes,),\n  B,\n}\n",
    "tx t() { bitcoin::foo }",
    "tx t() {\n  cardano::stake_delegation_certificate { pool: 0xab, stake: 0xcd, }\n}",
    "tx t() { cardano::stake_delegation_certificate { } }",
    "tx t() { input a { ref: 0xabc#1, } }",
    "tx t() { input a { ref: 0xab#99999999999999999999999, } }",
    "party A;\ntx t() { output { to: A, amount: Ada(1), datum: Undefined { a: 1, }, } }",
    "type R { a: Int, }\ntype S = R;\ntype U = S;\npolicy P { hash: 0xab, script: R { a: 1, }, }\n",
    "party A;\n\ntx t(q: Int) {\n  output {\n    to: A,\n    amount: Ada(q) +,\n  }\n}\n",
    "// é✓ comment\nparty A;\ntx t() {\n  output { to: B, amount: Ada(1), }\n}\n",
    "tx t() { output { to: \"é✓\", amount: missing_thing, } }",
    // indexing a local that holds a record: the lowering error message used to embed the Debug form of
    // the operand with every symbol it resolves to (740 MB for this program, 16 s)
    "party A;\ntype R { counter: Int, label: Bytes, extra: Int, }\ntx u(q: Int) {\n  locals { rec: R { counter: q, label: 0x00, extra: 2, }, }\n  input source { from: A, min_amount: Ada(rec[0]), }\n  output { to: A, amount: source - fees, }\n}\n",
];

fn nested(r: &mut Rng, depth: usize) -> String {
    let (open, close) = *r.pick(&[("(", ")"), ("[", "]"), ("[", ",]"), ("concat(", ", 1)"), ("Ada(", ")"), ("!", "")]);
    let core = r.pick(&["1", "x", "0xab", "\"s\"", "()"]).to_string();
    let mut s = String::new();
    for _ in 0..depth {
        s.push_str(open);
    }
    s.push_str(&core);
    for _ in 0..depth {
        s.push_str(close);
    }
    format!("party A;\ntx t(x: Int) {{\n  output {{\n    to: A,\n    amount: {s},\n  }}\n}}\n")
}

fn literal_text(r: &mut Rng) -> (&'static str, String) {
    match r.below(6) {
        0 => {
            let v = crate::common::boundary_i128(r);
            let pad = if r.chance(1, 5) { "0".repeat(r.below(4) as usize) } else { String::new() };
            ("number", if v < 0 { format!("-{pad}{}", v.unsigned_abs()) } else { format!("{pad}{v}") })
        }
        1 => ("bool", r.pick(&["true", "false"]).to_string()),
        2 => {
            let n = r.below(12) as usize;
            let s: String = (0..n).map(|_| *r.pick(&ANY_ALPHABET)).collect();
            ("string", format!("\"{s}\""))
        }
        3 => {
            let n = 1 + r.below(9) as usize;
            let s: String = (0..n).map(|_| *r.pick(&['0', '1', '9', 'a', 'f', 'A', 'F', 'c'])).collect();
            ("hex_string", format!("0x{s}"))
        }
        4 => {
            let n = 1 + r.below(8) as usize;
            let s: String = (0..n).map(|_| *r.pick(&['0', '1', '9', 'a', 'f', 'A', 'F', 'c'])).collect();
            let ix = match r.below(4) {
                0 => "18446744073709551615".to_string(),
                1 => "18446744073709551616".to_string(),
                2 => "9".repeat(1 + r.below(30) as usize),
                _ => format!("{}{}", "0".repeat(r.below(3) as usize), r.below(100000)),
            };
            ("utxo_ref", format!("0x{s}#{ix}"))
        }
        _ => {
            let n = r.below(10) as usize;
            let s: String = (0..n).map(|_| *r.pick(&['a', 'Z', '0', '_', 'x'])).collect();
            ("identifier", format!("v{s}"))
        }
    }
}

fn observe_literal(input: &str) -> Value {
    let tree = match guarded(|| tx3_lang::parsing::verif_pair_tree(input)) {
        Ok(Ok(t)) => json!({"ok": t}),
        Ok(Err(e)) => json!({"err": {"start": e.span.start, "end": e.span.end}}),
        Err(site) => json!({"panic": site}),
    };
    let parse = match guarded(|| tx3_lang::parsing::parse_string(input)) {
        Ok(Ok(ast)) => {
            let lit = ast
                .txs
                .first()
                .and_then(|t| t.signers.as_ref())
                .and_then(|s| s.signers.first())
                .map(|e| serde_json::to_value(e).unwrap_or(Value::Null))
                .unwrap_or(Value::Null);
            json!({"ok": lit})
        }
        Ok(Err(e)) => json!({"err": {"src_is_input": e.src == input, "span": span_json(&e.span), "message": e.message.chars().take(80).collect::<String>()}}),
        Err(site) => json!({"panic": site}),
    };
    json!({"tree": tree, "parse": parse})
}

pub fn run(opts: &Opts, out: &mut Emitter) {
    let mut r = Rng::new(opts.seed ^ 0x1219);
    // literal builders against the model
    // strings around the backslash (the grammar gives it no meaning: a string ends at the first quote)
    for text in ["\"\\\"", "\"C:\\\"", "\"a\\\\\\\"", "\"\\n\"", "\"\\ \"", "\"\\\\\"", "\"\\t\\\"", "\"x\\\"", "\"\\u{41}\"", "\"%s\\0\""] {
        let input = format!("tx t() {{\n  signers {{\n    {text},\n  }}\n}}\n");
        out.case("literal", || json!({"probe": "literal", "kind": "string", "text": text, "input": input, "obs": observe_literal(&input)}));
    }
    for _ in 0..(opts.n / 4).max(40) {
        let (kind, text) = literal_text(&mut r);
        let lead = r.pick(&["", "// é✓\n", "/* 😀 */ "]).to_string();
        let input = format!("{lead}tx t() {{\n  signers {{\n    {text},\n  }}\n}}\n");
        out.case("literal", || json!({"probe": "literal", "kind": kind, "text": text, "input": input, "obs": observe_literal(&input)}));
    }
    let g = Grammar::load();
    let corpus = example_corpus();
    let program = g.index["program"];

    // (e) reproduced failures first
    for s in PAST_FAILURES.iter() {
        out.case("past-failure", || json!({"input": s, "obs": observe(s)}));
    }
    // (e') definition graphs: types, aliases and locals that refer to each other (and to themselves), in every
    // shape; mostly small symbol graphs, which must come back at once, plus a fixed few of the growth classes
    let (small, large) = if opts.thorough { (600, 24) } else { (80, 4) };
    let mut made = (0usize, 0usize);
    let mut tries = 0usize;
    while (made.0 < small || made.1 < large) && tries < 40 * (small + large) {
        tries += 1;
        let want_large = made.0 >= small || (made.1 < large && tries % 8 == 0);
        let text = definition_graph_source(&mut r, want_large);
        let big = !class_of(&text).is_empty();
        if big != want_large {
            continue;
        }
        if big {
            made.1 += 1;
        } else {
            made.0 += 1;
        }
        // always in a process of its own: a stack overflow or an allocation failure is then an observation
        out.case("definition-graph", || json!({"input": text, "obs": observe_isolated("C12-child", &text, &class_of(&text))}));
    }
    // (a) the corpus itself
    for (name, text) in corpus.iter() {
        out.case("corpus", || json!({"input": text, "name": name, "obs": observe(text)}));
    }
    // (a'') call-arity sweep: every callable name with 0-3 arguments of every kind, in every position an
    // expression can stand in (the arity of a built-in is only enforced by lowering: whatever looks at the
    // arguments earlier must not assume there are any)
    for f in ["min_utxo", "tip_slot", "slot_to_time", "time_to_slot", "Ada", "Tok", "nowhere"] {
        for n in 0..=3usize {
            for arg in ["o", "A", "x", "1", "src"] {
                if n == 0 && arg != "o" {
                    continue;
                }
                let call = format!("{f}({})", vec![arg; n].join(", "));
                for slot in 0..5 {
                    let (local, amount, datum, since, min) = match slot {
                        0 => ("1", call.as_str(), "x", "1", "Ada(1)"),
                        1 => (call.as_str(), "Ada(v)", "x", "1", "Ada(1)"),
                        2 => ("1", "Ada(1)", call.as_str(), "1", "Ada(1)"),
                        3 => ("1", "Ada(1)", "x", call.as_str(), "Ada(1)"),
                        _ => ("1", "Ada(1)", "x", "1", call.as_str()),
                    };
                    let text = format!(
                        "party A;\npolicy P = 0xABCDEF1234;\nasset Tok = P.\"TK\";\ntx t(x: Int) {{\n  locals {{\n    v: {local},\n  }}\n  validity {{\n    since_slot: {since},\n  }}\n  input src {{\n    from: A,\n    min_amount: {min},\n  }}\n  output o {{\n    to: A,\n    amount: {amount},\n    datum: {datum},\n  }}\n}}\n"
                    );
                    out.case("call-arity", || json!({"input": text, "obs": observe(&text)}));
                }
            }
        }
    }
    // (a') literal sweep: every literal token of every example replaced, one at a time, by a
    // pathological literal of each kind (position-complete over the corpus, no sampling)
    for (name, text) in corpus.iter() {
        let toks = tokens(text);
        for (at, t) in toks.iter().enumerate() {
            let first = t.chars().next().unwrap_or(' ');
            let is_lit = first.is_ascii_digit() || first == '"';
            if !is_lit {
                continue;
            }
            // (the long strings put a multi-byte character across every limit a diagnostic might cut at)
            let repls: &[&str] = if opts.thorough {
                &["0xabc", "0x0", "99999999999999999999", "-9223372036854775809", "\"é✓😀\"", "0xab#1", "()",
                  "\"€€€€€€€€€€€€€€€€€€€€€€€€€€€€€€\"", "\"a漢漢漢漢漢漢漢漢漢漢漢漢漢漢漢漢漢漢漢漢漢漢漢漢\"", "\"ab😀😀😀😀😀😀😀😀😀😀😀😀😀😀😀😀😀😀\""]
            } else {
                &["0xabc", "99999999999999999999", "\"€€€€€€€€€€€€€€€€€€€€€€€€€€€€€€\"", "\"a漢漢漢漢漢漢漢漢漢漢漢漢漢漢漢漢漢漢漢漢漢漢漢漢\""]
            };
            for rep in repls {
                let mut ts = toks.clone();
                ts[at] = rep.to_string();
                let variant = ts.concat();
                out.case("literal-sweep", || json!({"input": variant, "name": name, "obs": observe(&variant)}));
            }
        }
    }
    // a prefix operator on an operand whose node has no span of its own (numbers, booleans, unit, a call), at every
    // position where the analyzer reports the expression itself: whatever span the operation is given must still be
    // a span of the text
    for lit in ["1", "true", "()", "tip_slot()", "0xab", "\"s\""] {
        let programs = [
            format!("party A;\nasset T = !{lit}.\"X\";\ntx t() {{\n  output {{\n    to: A,\n    amount: Ada(1),\n  }}\n}}\n"),
            format!("party A;\nasset T = 0xab.!{lit};\ntx t() {{\n  output {{\n    to: A,\n    amount: Ada(1),\n  }}\n}}\n"),
            format!("party A;\ntx t() {{\n  output {{\n    to: A,\n    amount: Ada(1),\n  }}\n  metadata {{\n    !{lit}: \"x\",\n  }}\n}}\n"),
            format!("party A;\ntx t() {{\n  output {{\n    to: A,\n    amount: Ada(1),\n  }}\n  metadata {{\n    1: !{lit},\n  }}\n}}\n"),
            format!("party A;\ntx t() {{\n  output {{\n    to: A,\n    amount: Ada(1),\n  }}\n  cardano::treasury_donation {{\n    coin: !{lit},\n  }}\n}}\n"),
            format!("party A;\ntx t() {{\n  output {{\n    to: A,\n    amount: Ada(1),\n  }}\n  cardano::withdrawal {{\n    from: A,\n    amount: !{lit},\n    redeemer: (),\n  }}\n}}\n"),
            format!("party A;\ntx t() {{\n  output {{\n    to: A,\n    amount: Ada(1),\n  }}\n  cardano::plutus_witness {{\n    version: !{lit},\n    script: 0xab,\n  }}\n}}\n"),
            format!("party A;\ntx t() {{\n  output {{\n    to: !{lit},\n    amount: !{lit},\n  }}\n  validity {{\n    since_slot: !{lit},\n  }}\n}}\n"),
        ];
        for text in programs {
            out.case("negated-literal", || json!({"input": text, "obs": observe(&text)}));
        }
    }
    // two literal bounds of a validity interval from the edges of the numerals the grammar admits, in both orders
    // (whatever an analysis computes from two literals must be computed without leaving its integer type)
    {
        let edges = ["0", "1", "-1", "9223372036854775807", "-9223372036854775807", "-2", "4294967296"];
        for a in edges {
            for b in edges {
                let text = format!("party A;\ntx t() {{\n  output {{\n    to: A,\n    amount: Ada(1),\n  }}\n  validity {{\n    since_slot: {a},\n    until_slot: {b},\n  }}\n}}\n");
                out.case("literal-pairs", || json!({"input": text, "obs": observe(&text)}));
                let text2 = format!("party A;\ntx t() {{\n  output {{\n    to: A,\n    amount: Ada({a}) - Ada({b}),\n  }}\n  metadata {{\n    {a}: {b},\n  }}\n}}\n");
                out.case("literal-pairs", || json!({"input": text2, "obs": observe(&text2)}));
            }
        }
    }
    // unclosed: an opener of every bracketing construct written 1..64 times and never closed (a comment inside a
    // comment, a string, braces, parentheses, brackets), with something between the copies so that no closer appears
    // by accident, at the start of a text and after a valid program: the answer is an error, at once
    {
        let valid = "party A;\ntx t(x: Int) {\n  output {\n    to: A,\n    amount: Ada(x),\n  }\n}\n";
        for opener in ["/* note ", "/*", "{ a: ", "( 1 + ", "[ 1, ", "\"text ", "tx t() { input s { ", "// line\n/* "] {
            for k in [1usize, 2, 3, 4, 6, 8, 30, 64] {
                for after in [false, true] {
                    // the two longest only in one position each (under a grammar that backtracks over them they cost a
                    // full timeout apiece)
                    if (k == 30 && !after) || (k == 64 && after) {
                        continue;
                    }
                    let text = format!("{}{}", if after { valid } else { "" }, opener.repeat(k));
                    out.case("unclosed", || json!({"input": text, "depth": k, "obs": observe(&text)}));
                }
            }
        }
    }
    // per-rule expansions embedded where they may occur keep the error rate moderate: a whole
    // program expansion is the main stream, single-rule expansions are spliced into a valid frame
    let frames: Vec<(&str, &str, &str)> = vec![
        ("data_expr", "party A;\ntx t(x: Int) {\n  output {\n    to: A,\n    amount: ", ",\n  }\n}\n"),
        ("tx_def", "party A;\n", "\n"),
        ("type", "type R {\n  f: ", ",\n}\n"),
        ("input_block", "party A;\ntx t(x: Int) {\n  ", "\n}\n"),
        ("output_block", "party A;\ntx t(x: Int) {\n  ", "\n}\n"),
        ("chain_specific_block", "party A;\ntx t(x: Int) {\n  ", "\n}\n"),
        ("policy_def", "", "\n"),
        ("variant_def", "", "\n"),
        ("record_def", "", "\n"),
        ("locals_block", "party A;\ntx t(x: Int) {\n  ", "\n  output { to: A, amount: Ada(1), }\n}\n"),
        ("metadata_block", "party A;\ntx t(x: Int) {\n  ", "\n}\n"),
        ("signers_block", "party A;\ntx t(x: Int) {\n  ", "\n}\n"),
        ("validity_block", "party A;\ntx t(x: Int) {\n  ", "\n}\n"),
        ("mint_block", "party A;\ntx t(x: Int) {\n  ", "\n}\n"),
        ("collateral_block", "party A;\ntx t(x: Int) {\n  ", "\n}\n"),
        ("reference_block", "party A;\ntx t(x: Int) {\n  ", "\n}\n"),
        ("asset_def", "", "\n"),
        ("env_def", "", "\n"),
    ];
    let n = opts.n;
    let mut generated: Vec<String> = vec![];
    for k in 0..n {
        match k % 10 {
            0..=2 => {
                // (b) whole-program expansion
                let mut s = String::new();
                let budget = 3 + r.below(10) as usize;
                g.expand(&mut r, &GExpr::Ref(program), budget, false, &mut s);
                if s.len() < 6000 {
                    generated.push(s.clone());
                    out.case("grammar-program", || json!({"input": s, "obs": observe(&s)}));
                } else {
                    out.case("grammar-program", || json!({"input": "", "obs": observe("")}));
                }
            }
            3..=5 => {
                let (rule, pre, post) = *r.pick(&frames);
                let mut s = String::new();
                let budget = 2 + r.below(9) as usize;
                g.expand(&mut r, &GExpr::Ref(g.index[rule]), budget, false, &mut s);
                let text = format!("{pre}{s}{post}");
                if text.len() < 6000 {
                    generated.push(text.clone());
                }
                out.case("grammar-rule", || json!({"input": text, "rule": rule, "obs": observe(&text)}));
            }
            6..=7 => {
                // (c) mutations of the corpus and of generated programs
                let base = if !generated.is_empty() && r.chance(1, 3) { r.pick(&generated).clone() } else { r.pick(&corpus).1.clone() };
                let donor = r.pick(&corpus).1.clone();
                let rounds = 1 + r.below(3);
                let mut text = base;
                let mut kinds = vec![];
                for _ in 0..rounds {
                    let (t, kind) = mutate(&mut r, &text, &donor);
                    text = t;
                    kinds.push(kind);
                }
                out.case("mutation", || json!({"input": text, "mutations": kinds, "obs": observe(&text)}));
            }
            8 => {
                // (f) semantic mutations of generated core programs (C13's stream)
                let (text, kinds, _) = crate::c13::mutated_source(&mut r);
                out.case("semantic-mutation", || json!({"input": text, "mutations": kinds, "obs": observe(&text)}));
            }
            _ => {
                let depth = 1 + r.below(64) as usize;
                let text = nested(&mut r, depth);
                out.case("nesting", || json!({"input": text, "depth": depth, "obs": observe(&text)}));
            }
        }
    }
}
