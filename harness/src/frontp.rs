//! Front-end probes (C12, C19; the analysis/lowering outcome is also what C13 judges):
//! source texts from (a) the example corpus, (b) random expansion of the grammar file itself
//! (read from the translator's grammar.json), (c) token-level mutations of both, (d) deep nesting,
//! (e) reproduced past failures — each run through the real pest parser (pair tree via the
//! `tx3_verif` hook), `parse_string`, `analyze`, `lower` and `Workspace::lower`.

use crate::common::{guarded, Emitter, Rng};
use crate::Opts;
use serde_json::{json, Value};
use std::collections::HashMap;

// ---------------------------------------------------------------- grammar

#[derive(Debug, Clone)]
pub enum GExpr {
    Str(String),
    Any,
    Soi,
    Eoi,
    Ranges(Vec<(char, char)>),
    Ref(usize),
    Seq(Box<GExpr>, Box<GExpr>),
    Choice(Box<GExpr>, Box<GExpr>),
    Star(Box<GExpr>),
    Plus(Box<GExpr>),
    Opt(Box<GExpr>),
    Not(Box<GExpr>),
}

pub struct GRule {
    pub name: String,
    pub atomic: bool,
    pub body: GExpr,
}

pub struct Grammar {
    pub rules: Vec<GRule>,
    pub index: HashMap<String, usize>,
    pub cost: Vec<usize>,
}

const INF: usize = usize::MAX / 4;

fn gexpr(v: &Value) -> GExpr {
    let k = v["k"].as_str().unwrap();
    let sub = |f: &str| Box::new(gexpr(&v[f]));
    match k {
        "str" => GExpr::Str(v["s"].as_str().unwrap().to_string()),
        "any" => GExpr::Any,
        "soi" => GExpr::Soi,
        "eoi" => GExpr::Eoi,
        "ranges" => GExpr::Ranges(
            v["r"]
                .as_array()
                .unwrap()
                .iter()
                .map(|p| (p[0].as_str().unwrap().chars().next().unwrap(), p[1].as_str().unwrap().chars().next().unwrap()))
                .collect(),
        ),
        "ref" => GExpr::Ref(v["i"].as_u64().unwrap() as usize),
        "seq" => GExpr::Seq(sub("a"), sub("b")),
        "choice" => GExpr::Choice(sub("a"), sub("b")),
        "star" => GExpr::Star(sub("e")),
        "plus" => GExpr::Plus(sub("e")),
        "opt" => GExpr::Opt(sub("e")),
        "not" => GExpr::Not(sub("e")),
        "and" => GExpr::Not(Box::new(GExpr::Not(sub("e")))),
        x => panic!("grammar.json: unknown node {x}"),
    }
}

impl Grammar {
    pub fn load() -> Grammar {
        let path = std::env::var("TX3_GRAMMAR_JSON").unwrap_or_else(|_| "/verif/work/grammar.json".to_string());
        let text = std::fs::read_to_string(&path).unwrap_or_else(|e| panic!("cannot read {path}: {e}"));
        let v: Value = serde_json::from_str(&text).unwrap();
        let mut rules = vec![];
        let mut index = HashMap::new();
        for (i, r) in v["rules"].as_array().unwrap().iter().enumerate() {
            let name = r["name"].as_str().unwrap().to_string();
            index.insert(name.clone(), i);
            rules.push(GRule { name, atomic: r["mode"] == "atomic", body: gexpr(&r["body"]) });
        }
        let mut g = Grammar { cost: vec![INF; rules.len()], rules, index };
        // least fix-point of the minimal expansion size
        loop {
            let mut changed = false;
            for i in 0..g.rules.len() {
                let c = g.cost_of(&g.rules[i].body);
                if c < g.cost[i] {
                    g.cost[i] = c;
                    changed = true;
                }
            }
            if !changed {
                break;
            }
        }
        g
    }

    fn cost_of(&self, e: &GExpr) -> usize {
        match e {
            GExpr::Str(s) => s.len(),
            GExpr::Any | GExpr::Ranges(_) => 1,
            GExpr::Soi | GExpr::Eoi | GExpr::Star(_) | GExpr::Opt(_) | GExpr::Not(_) => 0,
            GExpr::Ref(i) => self.cost[*i],
            GExpr::Seq(a, b) => (self.cost_of(a) + self.cost_of(b)).min(INF),
            GExpr::Choice(a, b) => self.cost_of(a).min(self.cost_of(b)),
            GExpr::Plus(e) => self.cost_of(e),
        }
    }

    fn alternatives<'a>(&'a self, e: &'a GExpr, out: &mut Vec<&'a GExpr>) {
        match e {
            GExpr::Choice(a, b) => {
                self.alternatives(a, out);
                self.alternatives(b, out);
            }
            x => out.push(x),
        }
    }

    /// Random expansion of `e`; with `budget == 0` the cheapest expansion.
    pub fn expand(&self, r: &mut Rng, e: &GExpr, budget: usize, atomic: bool, out: &mut String) {
        match e {
            GExpr::Str(s) => out.push_str(s),
            GExpr::Any => out.push(*r.pick(&ANY_ALPHABET)),
            GExpr::Soi | GExpr::Eoi | GExpr::Not(_) => {}
            GExpr::Ranges(rs) => {
                let (lo, hi) = *r.pick(rs);
                let c = char::from_u32(lo as u32 + r.below((hi as u32 - lo as u32 + 1) as u64) as u32).unwrap_or(lo);
                out.push(c);
            }
            GExpr::Ref(i) => {
                let rule = &self.rules[*i];
                self.expand(r, &rule.body, budget.saturating_sub(1), atomic || rule.atomic, out)
            }
            GExpr::Seq(a, b) => {
                self.expand(r, a, budget, atomic, out);
                if !atomic {
                    self.separator(r, out);
                }
                self.expand(r, b, budget, atomic, out);
            }
            GExpr::Choice(_, _) => {
                let mut alts = vec![];
                self.alternatives(e, &mut alts);
                let pick = if budget == 0 {
                    *alts.iter().min_by_key(|a| self.cost_of(a)).unwrap()
                } else {
                    *r.pick(&alts)
                };
                self.expand(r, pick, budget, atomic, out);
            }
            GExpr::Star(x) | GExpr::Plus(x) => {
                let min = if matches!(e, GExpr::Plus(_)) { 1 } else { 0 };
                let n = if budget == 0 {
                    min
                } else {
                    // atomic repetitions are the characters of a token: make them longer
                    let extra = if atomic { r.below(9) } else { [0, 0, 1, 1, 1, 2, 2, 3][r.below(8) as usize] };
                    min + extra as usize
                };
                for k in 0..n {
                    if k > 0 && !atomic {
                        self.separator(r, out);
                    }
                    self.expand(r, x, budget, atomic, out);
                }
            }
            GExpr::Opt(x) => {
                if budget > 0 && r.chance(1, 2) {
                    self.expand(r, x, budget, atomic, out);
                }
            }
        }
    }

    fn separator(&self, r: &mut Rng, out: &mut String) {
        match r.below(20) {
            0..=11 => out.push(' '),
            12..=13 => {}
            14..=15 => out.push('\n'),
            16 => out.push_str("  \t"),
            17 => out.push_str(" // note é✓\n"),
            18 => out.push_str(" /* 😀 */ "),
            _ => out.push_str("\r\n"),
        }
    }
}

const ANY_ALPHABET: [char; 16] = ['a', 'b', 'Z', '0', '7', ' ', '_', '-', '.', ',', 'é', '✓', '😀', 'ß', ':', '#'];

// ---------------------------------------------------------------- tokens and mutations

fn tokens(src: &str) -> Vec<String> {
    let cs: Vec<char> = src.chars().collect();
    let mut out = vec![];
    let mut i = 0;
    while i < cs.len() {
        let c = cs[i];
        let start = i;
        if c.is_whitespace() {
            while i < cs.len() && cs[i].is_whitespace() {
                i += 1;
            }
        } else if c == '/' && i + 1 < cs.len() && cs[i + 1] == '/' {
            while i < cs.len() && cs[i] != '\n' {
                i += 1;
            }
        } else if c == '"' {
            i += 1;
            while i < cs.len() && cs[i] != '"' {
                i += 1;
            }
            i = (i + 1).min(cs.len());
        } else if c.is_ascii_alphanumeric() || c == '_' {
            while i < cs.len() && (cs[i].is_ascii_alphanumeric() || cs[i] == '_') {
                i += 1;
            }
        } else if c == ':' && i + 1 < cs.len() && cs[i + 1] == ':' {
            i += 2;
        } else if c == '.' && i + 2 < cs.len() && cs[i + 1] == '.' && cs[i + 2] == '.' {
            i += 3;
        } else {
            i += 1;
        }
        out.push(cs[start..i].iter().collect());
    }
    out
}

fn significant(toks: &[String]) -> Vec<usize> {
    (0..toks.len()).filter(|&i| !toks[i].chars().all(|c| c.is_whitespace())).collect()
}

fn stretch(r: &mut Rng, tok: &str) -> String {
    let first = tok.chars().next().unwrap_or(' ');
    if tok.starts_with("0x") {
        match r.below(4) {
            0 => format!("{tok}a"),
            1 => format!("0x{}", "ab".repeat(40)),
            2 => format!("{tok}#{}", "9".repeat(1 + r.below(30) as usize)),
            _ => "0x1".to_string(),
        }
    } else if first.is_ascii_digit() {
        match r.below(5) {
            0 => "9".repeat(19 + r.below(25) as usize),
            1 => format!("-{}", "9".repeat(19 + r.below(25) as usize)),
            2 => "9223372036854775807".to_string(),
            3 => "9223372036854775808".to_string(),
            _ => "-9223372036854775809".to_string(),
        }
    } else if first == '"' {
        match r.below(3) {
            0 => format!("\"{}\"", "é✓😀".repeat(1 + r.below(30) as usize)),
            1 => format!("\"{}\"", "x".repeat(60 + r.below(20) as usize)),
            _ => "\"".to_string(),
        }
    } else if first.is_ascii_alphabetic() {
        match r.below(3) {
            0 => format!("{tok}_{}", "z".repeat(r.below(40) as usize)),
            1 => format!("{tok}é"),
            _ => tok.to_uppercase(),
        }
    } else {
        tok.to_string()
    }
}

const PUNCT: [&str; 18] = ["{", "}", "(", ")", "[", "]", ",", ":", ";", "::", "...", "+", "-", "!", ".", "*", "?", "="];

pub fn mutate(r: &mut Rng, src: &str, donor: &str) -> (String, &'static str) {
    let mut toks = tokens(src);
    let sig = significant(&toks);
    if sig.is_empty() {
        return (src.to_string(), "none");
    }
    let at = *r.pick(&sig);
    let kind = match r.below(9) {
        0 => {
            toks.remove(at);
            "delete"
        }
        1 => {
            let t = toks[at].clone();
            toks.insert(at, t);
            "duplicate"
        }
        2 => {
            let other = *r.pick(&sig);
            toks.swap(at, other);
            "swap"
        }
        3 => {
            let d = tokens(donor);
            if !d.is_empty() {
                let from = r.below(d.len() as u64) as usize;
                let len = 1 + r.below(8) as usize;
                let piece: Vec<String> = d[from..(from + len).min(d.len())].to_vec();
                for (k, p) in piece.into_iter().enumerate() {
                    toks.insert(at + k, p);
                }
            }
            "splice"
        }
        4 | 5 => {
            // stretch a literal if there is one nearby, else this token
            let lits: Vec<usize> = sig
                .iter()
                .copied()
                .filter(|&i| {
                    let c = toks[i].chars().next().unwrap();
                    c.is_ascii_digit() || c == '"'
                })
                .collect();
            let target = if !lits.is_empty() && r.chance(3, 4) { *r.pick(&lits) } else { at };
            toks[target] = stretch(r, &toks[target].clone());
            "stretch"
        }
        6 => {
            toks[at] = r.pick(&PUNCT).to_string();
            "punct"
        }
        7 => {
            toks.insert(at, r.pick(&["/* ✓ */", "// é\n", "\n\n", "😀", "\u{00a0}"]).to_string());
            "insert-trivia"
        }
        _ => {
            // truncate
            toks.truncate(at);
            "truncate"
        }
    };
    (toks.concat(), kind)
}

// ---------------------------------------------------------------- observation

fn span_json(s: &tx3_lang::ast::Span) -> Value {
    serde_json::to_value(s).unwrap_or(Value::Null)
}

fn analysis_error_json(e: &tx3_lang::analyzing::Error) -> Value {
    use tx3_lang::analyzing::Error as E;
    let (kind, name) = match e {
        E::DuplicateDefinition(n) => ("DuplicateDefinition", Some(n.clone())),
        E::NotInScope(x) => ("NotInScope", Some(x.name.clone())),
        E::NeedsParentScope => ("NeedsParentScope", None),
        E::InvalidSymbol(x) => ("InvalidSymbol", Some(x.got.clone())),
        E::InvalidTargetType(x) => ("InvalidTargetType", Some(x.got.clone())),
        E::MetadataSizeLimitExceeded(_) => ("MetadataSizeLimitExceeded", None),
        E::MetadataInvalidKeyType(x) => ("MetadataInvalidKeyType", Some(x.key_type.clone())),
        E::InvalidOptionalOutput(x) => ("InvalidOptionalOutput", Some(x.name.clone())),
        #[allow(unreachable_patterns)]
        _ => ("Other", None),
    };
    json!({"kind": kind, "name": name, "span": span_json(e.span())})
}

/// Seconds after which one source text counts as not terminating.
pub const TIMEOUT_S: u64 = 20;

/// Everything the front end does with one source text, on a thread with the main thread's stack
/// size; a text that takes longer than `TIMEOUT_S` is reported as a timeout (its thread is left
/// behind).
pub fn observe(input: &str) -> Value {
    let (tx, rx) = std::sync::mpsc::channel();
    let text = input.to_string();
    let spawned = std::thread::Builder::new().stack_size(8 << 20).spawn(move || {
        let v = observe_inner(&text);
        let _ = tx.send(v);
    });
    if spawned.is_err() {
        return json!({"timeout": 0, "note": "thread spawn failed"});
    }
    match rx.recv_timeout(std::time::Duration::from_secs(TIMEOUT_S)) {
        Ok(v) => v,
        Err(_) => json!({"timeout": TIMEOUT_S}),
    }
}

fn observe_inner(input: &str) -> Value {
    let tree = match guarded(|| tx3_lang::parsing::verif_pair_tree(input)) {
        Ok(Ok(t)) => json!({"ok": t}),
        Ok(Err(e)) => json!({"err": {"start": e.span.start, "end": e.span.end}}),
        Err(site) => json!({"panic": site}),
    };
    let mut analyze = Value::Null;
    let mut lower = Value::Null;
    let mut facade = Value::Null;
    let parse = match guarded(|| tx3_lang::parsing::parse_string(input)) {
        Ok(Ok(mut ast)) => {
            match guarded(|| tx3_lang::analyzing::analyze(&mut ast)) {
                Ok(report) => {
                    let errs: Vec<Value> = report.errors.iter().map(analysis_error_json).collect();
                    if report.errors.is_empty() {
                        let names: Vec<String> = ast.txs.iter().map(|t| t.name.value.clone()).collect();
                        let mut rs = vec![];
                        for n in names {
                            let r = match guarded(|| tx3_lang::lowering::lower(&ast, &n)) {
                                Ok(Ok(_)) => "ok".to_string(),
                                Ok(Err(e)) => format!("err:{}", variant_name(&format!("{e:?}"))),
                                Err(site) => format!("panic:{site}"),
                            };
                            rs.push(json!({"tx": n, "r": r}));
                        }
                        lower = json!(rs);
                    }
                    analyze = json!({"errors": errs});
                }
                Err(site) => analyze = json!({"panic": site}),
            }
            json!({"ok": true})
        }
        Ok(Err(e)) => {
            let same = e.src == input;
            json!({"err": {"message": e.message.chars().take(200).collect::<String>(), "src_is_input": same,
                           "src": if same { Value::Null } else { json!(e.src) }, "span": span_json(&e.span)}})
        }
        Err(site) => json!({"panic": site}),
    };
    if parse.get("ok").is_some() {
        facade = match guarded(|| {
            let mut ws = tx3_lang::Workspace::from_string(input.to_string());
            ws.lower().map(|_| ()).map_err(|e| variant_name(&format!("{e:?}")))
        }) {
            Ok(Ok(())) => json!("ok"),
            Ok(Err(e)) => json!(format!("err:{e}")),
            Err(site) => json!(format!("panic:{site}")),
        };
    }
    json!({"tree": tree, "parse": parse, "analyze": analyze, "lower": lower, "facade": facade})
}

fn variant_name(dbg: &str) -> String {
    dbg.chars().take_while(|c| c.is_ascii_alphanumeric() || *c == '_').collect()
}

// ---------------------------------------------------------------- corpus

pub fn example_corpus() -> Vec<(String, String)> {
    let dir = std::env::var("TX3_REPO").unwrap_or_else(|_| "/repo".to_string()) + "/examples";
    let mut out = vec![];
    if let Ok(rd) = std::fs::read_dir(&dir) {
        let mut names: Vec<_> = rd.filter_map(|e| e.ok()).map(|e| e.path()).filter(|p| p.extension().map(|x| x == "tx3").unwrap_or(false)).collect();
        names.sort();
        for p in names {
            if let Ok(text) = std::fs::read_to_string(&p) {
                out.push((p.file_name().unwrap().to_string_lossy().to_string(), text));
            }
        }
    }
    out
}

/// Inputs that made the front end panic or mislabel at the pinned commit.
pub const PAST_FAILURES: [&str; 15] = [
    "tx t() { output { to: A, amount: Ada(99999999999999999999), } }",
    "tx t() { output { to: A, amount: Ada(-9223372036854775809), } }",
    "type T { A(Int,), }",
    "type T {\n  A(Int, Bytes,),\n  B,\n}\n",
    "tx t() { bitcoin::foo }",
    "tx t() {\n  cardano::stake_delegation_certificate { pool: 0xab, stake: 0xcd, }\n}",
    "tx t() { cardano::stake_delegation_certificate { } }",
    "tx t() { input a { ref: 0xabc#1, } }",
    "tx t() { input a { ref: 0xab#99999999999999999999999, } }",
    "party A;\ntx t() { output { to: A, amount: Ada(1), datum: Undefined { a: 1, }, } }",
    "type R { a: Int, }\ntype S = R;\ntype U = S;\npolicy P { hash: 0xab, script: R { a: 1, }, }\n",
    "party A;\n\ntx t(q: Int) {\n  output {\n    to: A,\n    amount: Ada(q) +,\n  }\n}\n",
    "// é✓ comment\nparty A;\ntx t() {\n  output { to: B, amount: Ada(1), }\n}\n",
    "tx t() { output { to: \"é✓\", amount: missing_thing, } }",
    // indexing a local that holds a record: the lowering error message used to embed the Debug form of
    // the operand with every symbol it resolves to (740 MB for this program, 16 s)
    "party A;\ntype R { counter: Int, label: Bytes, extra: Int, }\ntx u(q: Int) {\n  locals { rec: R { counter: q, label: 0x00, extra: 2, }, }\n  input source { from: A, min_amount: Ada(rec[0]), }\n  output { to: A, amount: source - fees, }\n}\n",
];

fn nested(r: &mut Rng, depth: usize) -> String {
    let (open, close) = *r.pick(&[("(", ")"), ("[", "]"), ("[", ",]"), ("concat(", ", 1)"), ("Ada(", ")"), ("!", "")]);
    let core = r.pick(&["1", "x", "0xab", "\"s\"", "()"]).to_string();
    let mut s = String::new();
    for _ in 0..depth {
        s.push_str(open);
    }
    s.push_str(&core);
    for _ in 0..depth {
        s.push_str(close);
    }
    format!("party A;\ntx t(x: Int) {{\n  output {{\n    to: A,\n    amount: {s},\n  }}\n}}\n")
}

fn literal_text(r: &mut Rng) -> (&'static str, String) {
    match r.below(6) {
        0 => {
            let v = crate::common::boundary_i128(r);
            let pad = if r.chance(1, 5) { "0".repeat(r.below(4) as usize) } else { String::new() };
            ("number", if v < 0 { format!("-{pad}{}", v.unsigned_abs()) } else { format!("{pad}{v}") })
        }
        1 => ("bool", r.pick(&["true", "false"]).to_string()),
        2 => {
            let n = r.below(12) as usize;
            let s: String = (0..n).map(|_| *r.pick(&ANY_ALPHABET)).collect();
            ("string", format!("\"{s}\""))
        }
        3 => {
            let n = 1 + r.below(9) as usize;
            let s: String = (0..n).map(|_| *r.pick(&['0', '1', '9', 'a', 'f', 'A', 'F', 'c'])).collect();
            ("hex_string", format!("0x{s}"))
        }
        4 => {
            let n = 1 + r.below(8) as usize;
            let s: String = (0..n).map(|_| *r.pick(&['0', '1', '9', 'a', 'f', 'A', 'F', 'c'])).collect();
            let ix = match r.below(4) {
                0 => "18446744073709551615".to_string(),
                1 => "18446744073709551616".to_string(),
                2 => "9".repeat(1 + r.below(30) as usize),
                _ => format!("{}{}", "0".repeat(r.below(3) as usize), r.below(100000)),
            };
            ("utxo_ref", format!("0x{s}#{ix}"))
        }
        _ => {
            let n = r.below(10) as usize;
            let s: String = (0..n).map(|_| *r.pick(&['a', 'Z', '0', '_', 'x'])).collect();
            ("identifier", format!("v{s}"))
        }
    }
}

fn observe_literal(input: &str) -> Value {
    let tree = match guarded(|| tx3_lang::parsing::verif_pair_tree(input)) {
        Ok(Ok(t)) => json!({"ok": t}),
        Ok(Err(e)) => json!({"err": {"start": e.span.start, "end": e.span.end}}),
        Err(site) => json!({"panic": site}),
    };
    let parse = match guarded(|| tx3_lang::parsing::parse_string(input)) {
        Ok(Ok(ast)) => {
            let lit = ast
                .txs
                .first()
                .and_then(|t| t.signers.as_ref())
                .and_then(|s| s.signers.first())
                .map(|e| serde_json::to_value(e).unwrap_or(Value::Null))
                .unwrap_or(Value::Null);
            json!({"ok": lit})
        }
        Ok(Err(e)) => json!({"err": {"src_is_input": e.src == input, "span": span_json(&e.span), "message": e.message.chars().take(80).collect::<String>()}}),
        Err(site) => json!({"panic": site}),
    };
    json!({"tree": tree, "parse": parse})
}

pub fn run(opts: &Opts, out: &mut Emitter) {
    let mut r = Rng::new(opts.seed ^ 0x1219);
    // literal builders against the model
    for _ in 0..(opts.n / 4).max(40) {
        let (kind, text) = literal_text(&mut r);
        let lead = r.pick(&["", "// é✓\n", "/* 😀 */ "]).to_string();
        let input = format!("{lead}tx t() {{\n  signers {{\n    {text},\n  }}\n}}\n");
        out.case("literal", || json!({"probe": "literal", "kind": kind, "text": text, "input": input, "obs": observe_literal(&input)}));
    }
    let g = Grammar::load();
    let corpus = example_corpus();
    let program = g.index["program"];

    // (e) reproduced failures first
    for s in PAST_FAILURES.iter() {
        out.case("past-failure", || json!({"input": s, "obs": observe(s)}));
    }
    // (a) the corpus itself
    for (name, text) in corpus.iter() {
        out.case("corpus", || json!({"input": text, "name": name, "obs": observe(text)}));
    }
    // (a') literal sweep: every literal token of every example replaced, one at a time, by a
    // pathological literal of each kind (position-complete over the corpus, no sampling)
    for (name, text) in corpus.iter() {
        let toks = tokens(text);
        for (at, t) in toks.iter().enumerate() {
            let first = t.chars().next().unwrap_or(' ');
            let is_lit = first.is_ascii_digit() || first == '"';
            if !is_lit {
                continue;
            }
            let repls: &[&str] = if opts.thorough { &["0xabc", "0x0", "99999999999999999999", "-9223372036854775809", "\"é✓😀\"", "0xab#1", "()"] } else { &["0xabc", "99999999999999999999"] };
            for rep in repls {
                let mut ts = toks.clone();
                ts[at] = rep.to_string();
                let variant = ts.concat();
                out.case("literal-sweep", || json!({"input": variant, "name": name, "obs": observe(&variant)}));
            }
        }
    }
    // per-rule expansions embedded where they may occur keep the error rate moderate: a whole
    // program expansion is the main stream, single-rule expansions are spliced into a valid frame
    let frames: Vec<(&str, &str, &str)> = vec![
        ("data_expr", "party A;\ntx t(x: Int) {\n  output {\n    to: A,\n    amount: ", ",\n  }\n}\n"),
        ("tx_def", "party A;\n", "\n"),
        ("type", "type R {\n  f: ", ",\n}\n"),
        ("input_block", "party A;\ntx t(x: Int) {\n  ", "\n}\n"),
        ("output_block", "party A;\ntx t(x: Int) {\n  ", "\n}\n"),
        ("chain_specific_block", "party A;\ntx t(x: Int) {\n  ", "\n}\n"),
        ("policy_def", "", "\n"),
        ("variant_def", "", "\n"),
        ("record_def", "", "\n"),
        ("locals_block", "party A;\ntx t(x: Int) {\n  ", "\n  output { to: A, amount: Ada(1), }\n}\n"),
        ("metadata_block", "party A;\ntx t(x: Int) {\n  ", "\n}\n"),
        ("signers_block", "party A;\ntx t(x: Int) {\n  ", "\n}\n"),
        ("validity_block", "party A;\ntx t(x: Int) {\n  ", "\n}\n"),
        ("mint_block", "party A;\ntx t(x: Int) {\n  ", "\n}\n"),
        ("collateral_block", "party A;\ntx t(x: Int) {\n  ", "\n}\n"),
        ("reference_block", "party A;\ntx t(x: Int) {\n  ", "\n}\n"),
        ("asset_def", "", "\n"),
        ("env_def", "", "\n"),
    ];
    let n = opts.n;
    let mut generated: Vec<String> = vec![];
    for k in 0..n {
        match k % 10 {
            0..=2 => {
                // (b) whole-program expansion
                let mut s = String::new();
                let budget = 3 + r.below(10) as usize;
                g.expand(&mut r, &GExpr::Ref(program), budget, false, &mut s);
                if s.len() < 6000 {
                    generated.push(s.clone());
                    out.case("grammar-program", || json!({"input": s, "obs": observe(&s)}));
                } else {
                    out.case("grammar-program", || json!({"input": "", "obs": observe("")}));
                }
            }
            3..=5 => {
                let (rule, pre, post) = *r.pick(&frames);
                let mut s = String::new();
                let budget = 2 + r.below(9) as usize;
                g.expand(&mut r, &GExpr::Ref(g.index[rule]), budget, false, &mut s);
                let text = format!("{pre}{s}{post}");
                if text.len() < 6000 {
                    generated.push(text.clone());
                }
                out.case("grammar-rule", || json!({"input": text, "rule": rule, "obs": observe(&text)}));
            }
            6..=7 => {
                // (c) mutations of the corpus and of generated programs
                let base = if !generated.is_empty() && r.chance(1, 3) { r.pick(&generated).clone() } else { r.pick(&corpus).1.clone() };
                let donor = r.pick(&corpus).1.clone();
                let rounds = 1 + r.below(3);
                let mut text = base;
                let mut kinds = vec![];
                for _ in 0..rounds {
                    let (t, kind) = mutate(&mut r, &text, &donor);
                    text = t;
                    kinds.push(kind);
                }
                out.case("mutation", || json!({"input": text, "mutations": kinds, "obs": observe(&text)}));
            }
            8 => {
                // (f) semantic mutations of generated core programs (C13's stream)
                let (text, kinds, _) = crate::c13::mutated_source(&mut r);
                out.case("semantic-mutation", || json!({"input": text, "mutations": kinds, "obs": observe(&text)}));
            }
            _ => {
                let depth = 1 + r.below(64) as usize;
                let text = nested(&mut r, depth);
                out.case("nesting", || json!({"input": text, "depth": depth, "obs": observe(&text)}));
            }
        }
    }
}
