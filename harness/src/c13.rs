//! C13 — a program the analyzer accepts can always be lowered.  Valid core programs (C01's
//! generator) under *semantic* mutations of the generator's own tree (drop / duplicate / rename a
//! field, change arity, swap an identifier for one of another symbol kind, malformed literals,
//! long local chains, removed block and directive fields, a second transaction), then printed and
//! run through parse → analyze → lower → Workspace::lower.  The Lean side gets the *tree* (for the
//! lowering model) and the observation.

use crate::c01p;
use crate::common::{guarded, Rng};
use crate::frontp;
use crate::langgen::*;
use crate::{Emitter, Opts};
use serde_json::{json, Value};

// ------------------------------------------------------------------ expression positions

fn visit_e(e: &mut E, f: &mut dyn FnMut(&mut E)) {
    f(e);
    match e {
        E::Num(_) | E::Bool(_) | E::Str(_) | E::Hex(_) | E::Unit | E::Id(_) | E::UtxoRef(_, _) => {}
        E::Add(a, b) | E::Sub(a, b) | E::Concat(a, b) | E::Index(a, b) => {
            visit_e(a, f);
            visit_e(b, f);
        }
        E::Neg(a) | E::Prop(a, _) => visit_e(a, f),
        E::List(xs) => xs.iter_mut().for_each(|x| visit_e(x, f)),
        E::Map(kvs) => kvs.iter_mut().for_each(|(k, v)| {
            visit_e(k, f);
            visit_e(v, f)
        }),
        E::Record { fields, spread, .. } => {
            fields.iter_mut().for_each(|(_, v)| visit_e(v, f));
            if let Some(s) = spread {
                visit_e(s, f);
            }
        }
        E::AnyAsset(a, b, c) => {
            visit_e(a, f);
            visit_e(b, f);
            visit_e(c, f);
        }
        E::Call(_, args) => args.iter_mut().for_each(|x| visit_e(x, f)),
    }
}

fn visit_opt(e: &mut Option<E>, f: &mut dyn FnMut(&mut E)) {
    if let Some(x) = e {
        visit_e(x, f);
    }
}

fn visit_tx(t: &mut TxDef, f: &mut dyn FnMut(&mut E)) {
    for (_, e) in t.locals.iter_mut() {
        visit_e(e, f);
    }
    for i in t.inputs.iter_mut().chain(t.collateral.iter_mut()) {
        visit_opt(&mut i.from, f);
        visit_opt(&mut i.min_amount, f);
        visit_opt(&mut i.r#ref, f);
        visit_opt(&mut i.redeemer, f);
    }
    for (_, e) in t.references.iter_mut() {
        visit_e(e, f);
    }
    for o in t.outputs.iter_mut() {
        visit_opt(&mut o.to, f);
        visit_opt(&mut o.amount, f);
        visit_opt(&mut o.datum, f);
    }
    for m in t.mints.iter_mut().chain(t.burns.iter_mut()) {
        visit_opt(&mut m.amount, f);
        visit_opt(&mut m.redeemer, f);
    }
    if let Some((a, b)) = t.validity.as_mut() {
        visit_opt(a, f);
        visit_opt(b, f);
    }
    if let Some(s) = t.signers.as_mut() {
        s.iter_mut().for_each(|x| visit_e(x, f));
    }
    if let Some(md) = t.metadata.as_mut() {
        md.iter_mut().for_each(|(k, v)| {
            visit_e(k, f);
            visit_e(v, f)
        });
    }
    for (_, fs) in t.adhoc.iter_mut() {
        fs.iter_mut().for_each(|(_, v)| visit_e(v, f));
    }
}

/// Applies `edit` to the `k`-th (mod count) expression node of `t` satisfying `pred`; false when
/// there is none.
fn edit_nth(t: &mut TxDef, r: &mut Rng, pred: &dyn Fn(&E) -> bool, edit: &mut dyn FnMut(&mut E, &mut Rng)) -> bool {
    let mut count = 0usize;
    visit_tx(t, &mut |e| {
        if pred(e) {
            count += 1;
        }
    });
    if count == 0 {
        return false;
    }
    let target = r.below(count as u64) as usize;
    let mut seen = 0usize;
    let mut sub = r.fork();
    visit_tx(t, &mut |e| {
        if pred(e) {
            if seen == target {
                edit(e, &mut sub);
            }
            seen += 1;
        }
    });
    true
}

// ------------------------------------------------------------------ mutations

const KINDS: [&str; 18] = [
    "drop-field",
    "dup-field",
    "rename-field",
    "unknown-case",
    "unknown-type",
    "arity",
    "swap-kind",
    "odd-hex",
    "local-chain",
    "drop-block-field",
    "directive",
    "directive-drop-field",
    "second-tx",
    "shadow",
    "prop-on-local",
    "wrap-call",
    "none",
    "cross-kind-name",
];

fn names_of_other_kinds(p: &Program, t: &TxDef) -> Vec<String> {
    let mut v: Vec<String> = vec!["fees".into(), "Ada".into(), "min_utxo".into(), "tip_slot".into(), "nowhere".into(), "Int".into()];
    v.extend(p.parties.iter().cloned());
    v.extend(p.policies.iter().map(|x| x.0.clone()));
    v.extend(p.assets.iter().map(|x| x.0.clone()));
    v.extend(p.types.iter().map(|x| x.name.clone()));
    v.extend(p.env.iter().map(|x| x.0.clone()));
    v.extend(t.params.iter().map(|x| x.0.clone()));
    v.extend(t.locals.iter().map(|x| x.0.clone()));
    v.extend(t.inputs.iter().map(|x| x.name.clone()));
    v.extend(t.outputs.iter().filter_map(|x| x.name.clone()));
    v.extend(t.references.iter().map(|x| x.0.clone()));
    v
}

fn directive(r: &mut Rng, p: &Program) -> (String, Vec<(String, E)>) {
    let party = E::Id(r.pick(&p.parties).clone());
    match r.below(4) {
        0 => ("withdrawal".into(), vec![("from".into(), party), ("amount".into(), E::Num(r.range(0, 9))), ("redeemer".into(), E::Unit)]),
        1 => ("treasury_donation".into(), vec![("coin".into(), E::Num(r.range(1, 9)))]),
        2 => (
            "plutus_witness".into(),
            vec![("version".into(), E::Num(3)), ("script".into(), E::Hex("5101010023259800a518a4d136564004ae69".into()))],
        ),
        _ => ("native_witness".into(), vec![("script".into(), E::Hex("820181820400".into()))]),
    }
}

/// One semantic mutation of transaction `ti` of `p`; returns the kind actually applied.
fn mutate(r: &mut Rng, p: &mut Program, ti: usize) -> &'static str {
    let kind = *r.pick(&KINDS);
    let others = names_of_other_kinds(p, &p.txs[ti]);
    let parties = p.parties.clone();
    let pc = p.clone();
    let t = &mut p.txs[ti];
    let is_rec = |e: &E| matches!(e, E::Record { .. });
    let done = match kind {
        "drop-field" => edit_nth(t, r, &|e| matches!(e, E::Record { fields, .. } if !fields.is_empty()), &mut |e, r| {
            if let E::Record { fields, .. } = e {
                let k = r.below(fields.len() as u64) as usize;
                fields.remove(k);
            }
        }),
        "dup-field" => edit_nth(t, r, &|e| matches!(e, E::Record { fields, .. } if !fields.is_empty()), &mut |e, r| {
            if let E::Record { fields, .. } = e {
                let k = r.below(fields.len() as u64) as usize;
                let f = fields[k].clone();
                fields.push(f);
            }
        }),
        "rename-field" => edit_nth(t, r, &|e| matches!(e, E::Record { fields, .. } if !fields.is_empty()), &mut |e, r| {
            if let E::Record { fields, .. } = e {
                let k = r.below(fields.len() as u64) as usize;
                fields[k].0 = r.pick(&["zzz", "x", "counter", "label", "y"]).to_string();
            }
        }),
        "unknown-case" => edit_nth(t, r, &is_rec, &mut |e, r| {
            if let E::Record { case, .. } = e {
                *case = Some(r.pick(&["Zed", "A", "B", "Default"]).to_string());
            }
        }),
        "unknown-type" => edit_nth(t, r, &is_rec, &mut |e, r| {
            if let E::Record { ty, .. } = e {
                *ty = r.pick(&["Nope", "R", "V", "Sender", "quantity"]).to_string();
            }
        }),
        "arity" => edit_nth(t, r, &|e| matches!(e, E::Call(..)), &mut |e, r| {
            if let E::Call(_, args) = e {
                if !args.is_empty() && r.chance(1, 2) {
                    args.pop();
                } else {
                    args.push(E::Num(1));
                }
            }
        }),
        "wrap-call" => edit_nth(t, r, &|e| matches!(e, E::Num(_)), &mut |e, r| {
            let f = *r.pick(&["min_utxo", "tip_slot", "slot_to_time", "time_to_slot", "Ada", "nofn"]);
            let n = r.below(3) as usize;
            let args: Vec<E> = (0..n).map(|k| if k == 0 { e.clone() } else { E::Num(k as i64) }).collect();
            *e = E::Call(f.to_string(), args);
        }),
        "swap-kind" => edit_nth(t, r, &|e| matches!(e, E::Id(_)), &mut |e, r| {
            *e = E::Id(r.pick(&others).clone());
        }),
        "odd-hex" => edit_nth(t, r, &|e| matches!(e, E::Hex(_) | E::Str(_) | E::Num(_)), &mut |e, r| {
            *e = E::Hex(r.pick(&["abc", "0", "abcde", "a1b"]).to_string());
        }),
        "local-chain" => {
            // c0 = <an integer identifier>, c1 = c0, …; one integer use becomes the chain's end
            let len = 1 + r.below(13) as usize;
            let start = t.params.iter().find(|x| x.1 == Ty::Int).map(|x| x.0.clone()).unwrap_or("quantity".into());
            let reversed = r.chance(1, 4);
            let mut chain = vec![];
            for k in 0..len {
                let e = if k == 0 { E::Id(start.clone()) } else { E::Id(format!("c{}", k - 1)) };
                chain.push((format!("c{k}"), e));
            }
            if reversed {
                chain.reverse();
            }
            t.locals.extend(chain);
            let last = format!("c{}", len - 1);
            edit_nth(t, r, &|e| matches!(e, E::Id(n) if n == &start), &mut |e, _| *e = E::Id(last.clone()))
        }
        "drop-block-field" => {
            match r.below(6) {
                0 => t.outputs[0].to = None,
                1 => t.outputs[0].amount = None,
                2 => t.inputs[0].from = None,
                3 => t.inputs[0].min_amount = None,
                4 => {
                    t.inputs[0].from = None;
                    t.inputs[0].min_amount = None;
                }
                _ => {
                    if let Some(m) = t.mints.first_mut() {
                        m.amount = None
                    } else {
                        t.outputs[0].datum = None
                    }
                }
            }
            true
        }
        "directive" => {
            let d = directive(r, &pc);
            t.adhoc.push(d);
            true
        }
        "directive-drop-field" => {
            let mut d = directive(r, &pc);
            let k = r.below(d.1.len() as u64) as usize;
            d.1.remove(k);
            t.adhoc.push(d);
            true
        }
        "second-tx" => {
            // handled by the caller (needs the whole program)
            false
        }
        "cross-kind-name" => {
            // a parameter spelled like a party or an environment key up to case (the three end up under lower-cased
            // keys of one kind in the IR; the language keeps them apart by kind)
            let mut pool: Vec<String> = parties.clone();
            pool.extend(pc.env.iter().map(|e| e.0.clone()));
            let victim = r.pick(&pool).clone();
            let name = match r.below(3) {
                0 => victim.to_lowercase(),
                1 => victim.to_uppercase(),
                _ => victim.clone(),
            };
            t.params.push((name, Ty::Int));
            true
        }
        "shadow" => {
            // a local, an input or an output named like something else
            let victim = r.pick(&others).clone();
            match r.below(3) {
                0 => t.locals.push((victim, E::Num(7))),
                1 => {
                    if let Some(o) = t.outputs.first_mut() {
                        o.name = Some(victim)
                    }
                }
                _ => t.inputs.push(InputBlock { name: victim, from: Some(E::Id(parties[0].clone())), min_amount: Some(E::Call("Ada".into(), vec![E::Num(1)])), ..Default::default() }),
            }
            true
        }
        "prop-on-local" => {
            // a record held by a local, then `.field` / `[i]` on the local
            t.locals.push(("rec".into(), E::Record { ty: "R".into(), case: None, fields: vec![("counter".into(), E::Num(1)), ("label".into(), E::Hex("00".into())), ("extra".into(), E::Num(2))], spread: None }));
            t.locals.push(("lst".into(), E::List(vec![E::Num(1), E::Num(2)])));
            edit_nth(t, r, &|e| matches!(e, E::Num(_)), &mut |e, r| {
                *e = match r.below(4) {
                    0 => E::Prop(Box::new(E::Id("rec".into())), "counter".into()),
                    1 => E::Index(Box::new(E::Id("rec".into())), Box::new(E::Num(0))),
                    2 => E::Index(Box::new(E::Id("lst".into())), Box::new(E::Id("quantity".into()))),
                    _ => E::Index(Box::new(E::Id("lst".into())), Box::new(E::Num(0))),
                };
            })
        }
        _ => true,
    };
    if done {
        kind
    } else if kind == "second-tx" {
        "second-tx"
    } else {
        "none"
    }
}

// ------------------------------------------------------------------ observation

fn variant_name(dbg: &str) -> String {
    dbg.chars().take_while(|c| c.is_ascii_alphanumeric() || *c == '_').collect()
}

/// parse → analyze (errors split into name-resolution errors and NotLowerable ones) → an
/// independent lowering of every transaction of the analysed tree, whatever the report says →
/// the facade.
pub fn observe(input: &str) -> Value {
    let (tx, rx) = std::sync::mpsc::channel();
    let text = input.to_string();
    let spawned = std::thread::Builder::new().stack_size(8 << 20).spawn(move || {
        let tags = frontp::class_of(&text);
        let v = if tags.is_empty() { observe_inner(&text) } else { json!({"isolate": tags}) };
        let _ = tx.send(v);
    });
    if spawned.is_err() {
        return json!({"timeout": 0});
    }
    match rx.recv_timeout(std::time::Duration::from_secs(frontp::TIMEOUT_S)) {
        Ok(v) => match v.get("isolate") {
            Some(tags) => {
                let tags: Vec<String> = tags.as_array().map(|a| a.iter().filter_map(|t| t.as_str().map(String::from)).collect()).unwrap_or_default();
                frontp::observe_isolated("C13-child", input, &tags)
            }
            None => v,
        },
        // second chance, alone in a process of its own and with a generous limit
        Err(_) => frontp::observe_isolated("C13-child", input, &[]),
    }
}

pub fn observe_unisolated(input: &str) -> Value {
    observe_inner(input)
}

fn observe_inner(input: &str) -> Value {
    let mut ast = match guarded(|| tx3_lang::parsing::parse_string(input)) {
        Ok(Ok(ast)) => ast,
        Ok(Err(e)) => return json!({"parse": {"err": e.message.chars().take(160).collect::<String>()}}),
        Err(site) => return json!({"parse": {"panic": site}}),
    };
    let mut core: Vec<Value> = vec![];
    let mut not_lowerable: Vec<Value> = vec![];
    let analyze = match guarded(|| tx3_lang::analyzing::analyze(&mut ast)) {
        Ok(report) => {
            for e in report.errors.iter() {
                match e {
                    tx3_lang::analyzing::Error::NotLowerable { tx, reason } => not_lowerable.push(json!({"tx": tx, "reason": reason.chars().take(120).collect::<String>()})),
                    other => core.push(json!(variant_name(&format!("{other:?}")))),
                }
            }
            json!({"core": core, "not_lowerable": not_lowerable})
        }
        Err(site) => json!({"panic": site}),
    };
    let names: Vec<String> = ast.txs.iter().map(|t| t.name.value.clone()).collect();
    let mut lower = vec![];
    if analyze.get("panic").is_none() {
        for (k, n) in names.iter().enumerate() {
            // by position (what the analyzer's own check does) and by name (what callers do)
            let by_pos = match guarded(|| tx3_lang::lowering::lower_tx(&ast.txs[k])) {
                Ok(Ok(_)) => "ok".to_string(),
                Ok(Err(e)) => format!("err:{}", variant_name(&format!("{e:?}"))),
                Err(site) => format!("panic:{site}"),
            };
            let by_name = match guarded(|| tx3_lang::lowering::lower(&ast, n)) {
                Ok(Ok(_)) => "ok".to_string(),
                Ok(Err(e)) => format!("err:{}", variant_name(&format!("{e:?}"))),
                Err(site) => format!("panic:{site}"),
            };
            lower.push(json!({"tx": n, "r": by_pos, "by_name": by_name}));
        }
    }
    let facade = match guarded(|| {
        let mut ws = tx3_lang::Workspace::from_string(input.to_string());
        ws.lower().map(|_| ()).map_err(|e| variant_name(&format!("{e:?}")))
    }) {
        Ok(Ok(())) => "ok".to_string(),
        Ok(Err(e)) => format!("err:{e}"),
        Err(site) => format!("panic:{site}"),
    };
    json!({"parse": {"ok": true}, "analyze": analyze, "lower": lower, "facade": facade})
}

// ------------------------------------------------------------------ run

const PAST_FAILURES: [&str; 10] = [
    // record constructor missing a field without spread
    "type R { a: Int, b: Int, }\nparty A;\ntx t() {\n  output { to: A, amount: Ada(1), datum: R { a: 1, }, }\n}\n",
    // asset constructor without amount
    "party A;\ntx t() {\n  output { to: A, amount: Ada(), }\n}\n",
    // a type name used as a value
    "type R { a: Int, }\nparty A;\ntx t() {\n  output { to: A, amount: Ada(R), }\n}\n",
    // odd-length hex
    "party A;\ntx t() {\n  output { to: A, amount: Ada(1), datum: 0xabc, }\n}\n",
    // withdrawal without `from`
    "party A;\ntx t() {\n  cardano::withdrawal { amount: 1, redeemer: (), }\n}\n",
    // a chain of 11 locals
    "party A;\ntx t(q: Int) {\n  locals { l0: q, l1: l0, l2: l1, l3: l2, l4: l3, l5: l4, l6: l5, l7: l6, l8: l7, l9: l8, l10: l9, }\n  output { to: A, amount: Ada(l10), }\n}\n",
    // min_utxo with two arguments
    "party A;\ntx t() {\n  output o { to: A, amount: min_utxo(o, o), }\n}\n",
    // indexing a local list
    "party A;\ntx t(i: Int) {\n  locals { xs: [1, 2], }\n  output { to: A, amount: Ada(xs[i]), }\n}\n",
    // the second transaction is the broken one
    "party A;\ntx ok() {\n  output { to: A, amount: Ada(1), }\n}\ntx bad() {\n  output { to: A, amount: Ada(), }\n}\n",
    // two transactions with one name, the second broken
    "party A;\ntx t() {\n  output { to: A, amount: Ada(1), }\n}\ntx t() {\n  output { to: A, amount: Ada(), }\n}\n",
];

/// One semantically mutated core program as source text (also part of C12's stream).
pub fn mutated_source(r: &mut Rng) -> (String, Vec<&'static str>, Program) {
    let (mut p, _w) = c01p::gen(r);
    let mut kinds: Vec<&'static str> = vec![];
    // optionally a second transaction (a renamed copy, or a copy under the same name)
    let two = r.chance(1, 4);
    // a third of the transactions are named with capitals (whoever looks a transaction up by name must use the name
    // as written)
    if r.chance(1, 3) {
        p.txs[0].name = r.pick(&["Transfer", "payBack", "T", "swap_Now"]).to_string();
        kinds.push("capitalised-tx-name");
    }
    if two {
        let mut t2 = p.txs[0].clone();
        t2.name = if r.chance(1, 5) { p.txs[0].name.clone() } else { r.pick(&["u", "Undo", "transfer"]).to_string() };
        p.txs.push(t2);
        kinds.push("second-tx");
    }
    // type definitions that mention other user-defined types, aliases (and chains of them)
    if r.chance(1, 3) {
        kinds.push("nested-types");
        p.types.push(TypeDef { name: "Outer".into(), record: true, cases: vec![CaseDef { name: "Default".into(), fields: vec![("inner".into(), Ty::Custom("R".into())), ("n".into(), Ty::Int)] }] });
        if r.chance(1, 2) {
            p.types.push(TypeDef {
                name: "W".into(),
                record: false,
                cases: vec![CaseDef { name: "Some".into(), fields: vec![("v".into(), Ty::Custom("V".into()))] }, CaseDef { name: "Nothing".into(), fields: vec![] }],
            });
        }
        if r.chance(1, 2) {
            p.aliases.push(("Al".into(), Ty::Custom("R".into())));
            if r.chance(1, 2) {
                p.aliases.push(("Al2".into(), Ty::Custom("Al".into())));
            }
        }
    }
    let rounds = 1 + r.below(2);
    for _ in 0..rounds {
        let ti = if two && r.chance(2, 3) { 1 } else { 0 };
        let k = mutate(r, &mut p, ti);
        if k != "second-tx" {
            kinds.push(k);
        }
    }
    let layout_seed = r.next();
    let src = if layout_seed % 3 == 0 { print_program(&mut Layout::random(layout_seed), &p) } else { print_program(&mut Layout::plain(), &p) };
    (src, kinds, p)
}

pub fn run(opts: &Opts, out: &mut Emitter) {
    let mut r = Rng::new(opts.seed ^ 0xc13);
    for s in PAST_FAILURES.iter() {
        out.case("past-failure", || json!({"input": s, "obs": observe(s)}));
    }
    // malformed-literal sweep: a literal the grammar admits and lowering cannot read (hex with an odd number of
    // digits) at every literal position of a few programs in turn - metadata, signers, validity and directive
    // fields included; whoever looks at a literal before lowering does must not assume it is well formed
    for _ in 0..(if opts.thorough { 40 } else { 6 }) {
        let (mut p, _w) = c01p::gen(&mut r);
        {
            let t = &mut p.txs[0];
            if t.metadata.is_none() {
                t.metadata = Some(vec![(E::Num(674), E::Hex("c0ffee".into())), (E::Num(675), E::Str("memo".into()))]);
            }
            if t.signers.is_none() {
                t.signers = Some(vec![E::Hex("aa".repeat(28))]);
            }
        }
        let is_lit = |e: &E| matches!(e, E::Hex(_) | E::Str(_) | E::Num(_));
        let mut count = 0usize;
        visit_tx(&mut p.txs[0], &mut |e| {
            if is_lit(e) {
                count += 1;
            }
        });
        for at in 0..count {
            let mut q = p.clone();
            let mut seen = 0usize;
            visit_tx(&mut q.txs[0], &mut |e| {
                if is_lit(e) {
                    if seen == at {
                        *e = E::Hex("abc".into());
                    }
                    seen += 1;
                }
            });
            let src = print_program(&mut Layout::plain(), &q);
            out.case("odd-hex-sweep", || json!({"program": program_json(&q), "mutations": ["odd-hex"], "input": src, "obs": observe(&src)}));
        }
    }
    let corpus = frontp::example_corpus();
    // every example and feature program as it stands
    for (name, text) in corpus.iter() {
        out.case("corpus", || json!({"input": text, "mutations": ["none"], "name": name, "obs": observe(text)}));
    }
    for k in 0..opts.n {
        if k % 5 == 4 {
            // token-level mutations of the examples (chain-specific directives, policies with scripts …)
            let base = r.pick(&corpus).1.clone();
            let donor = r.pick(&corpus).1.clone();
            let (text, kind) = frontp::mutate(&mut r, &base, &donor);
            out.case("token-mutation", || json!({"input": text, "mutations": [kind], "obs": observe(&text)}));
            continue;
        }
        if k % 10 == 7 {
            // definition graphs (types, aliases, locals referring to each other and to themselves)
            let text = frontp::definition_graph_source(&mut r, false);
            if frontp::class_of(&text).is_empty() {
                out.case("definition-graph", || json!({"input": text, "mutations": ["definition-graph"], "obs": observe(&text)}));
                continue;
            }
        }
        let (src, kinds, p) = mutated_source(&mut r);
        out.case("semantic-mutation", || json!({"program": program_json(&p), "mutations": kinds, "input": src, "obs": observe(&src)}));
    }
}
