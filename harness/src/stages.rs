//! The shared L3 probe: staged application, reduction and the compiler pass
//! on the real crates (C06, C07; reused by C14).

use crate::common::*;
use crate::store;
use crate::tirgen::*;
use crate::tirjson::*;
use crate::Opts;
use serde_json::{json, Value};
use std::collections::BTreeMap;
use tx3_tir::encoding::AnyTir;
use tx3_tir::model::v1beta0 as tir;
use tx3_tir::reduce::{self, Apply as _, ArgValue};
use tx3_tir::Node as _;

pub fn reduce_err_class(e: &reduce::Error) -> String {
    match e {
        reduce::Error::InvalidBuiltInOp(_) => "InvalidBuiltInOp".into(),
        reduce::Error::InvalidArgument(_, _) => "InvalidArgument".into(),
        reduce::Error::PropertyNotFound(_, _) => "PropertyNotFound".into(),
        reduce::Error::PropertyIndexNotFound(_, _) => "PropertyIndexNotFound".into(),
        reduce::Error::InvalidBinaryOp(op, _, _) => format!("InvalidBinaryOp:{op}"),
        reduce::Error::InvalidUnaryOp(op, _) => format!("InvalidUnaryOp:{op}"),
        reduce::Error::CannotCoerceIntoAssets(_) => "CannotCoerceIntoAssets".into(),
        reduce::Error::CannotCoerceIntoDatum(_) => "CannotCoerceIntoDatum".into(),
        reduce::Error::CompilerOpFailed(inner) => {
            format!("CompilerOpFailed:{}", compile_err_class(inner))
        }
    }
}

pub fn compile_err_class(e: &tx3_tir::compile::Error) -> String {
    use tx3_tir::compile::Error as CE;
    match e {
        CE::UnsupportedTirVersion(_) => "UnsupportedTirVersion".into(),
        CE::CoerceError(_, to) => format!("CoerceError:{to}"),
        CE::FormatError(_) => "FormatError".into(),
        CE::MissingExpression(_) => "MissingExpression".into(),
        CE::ConsistencyError(_) => "ConsistencyError".into(),
    }
}

/// Result of a fallible, possibly panicking stage as protocol JSON.
pub fn outcome_tx(r: Result<Result<tir::Tx, reduce::Error>, String>) -> (Value, Option<tir::Tx>) {
    match r {
        Ok(Ok(tx)) => (json!({"ok": tx_json(&tx)}), Some(tx)),
        Ok(Err(e)) => (json!({"err": reduce_err_class(&e)}), None),
        Err(site) => (json!({"panic": site}), None),
    }
}

/// Canonical form for comparing schedule outcomes: asset lists that come out of a
/// `HashMap` have no defined order, so every asset list is stably sorted by class.
pub fn canon(v: &Value) -> Value {
    match v {
        Value::Object(m) => {
            let mut out = serde_json::Map::new();
            for (k, x) in m {
                out.insert(k.clone(), canon(x));
            }
            if out.get("k").and_then(|k| k.as_str()) == Some("assets") {
                if let Some(Value::Array(cs)) = out.get("c") {
                    let mut triples: Vec<Vec<Value>> =
                        cs.chunks(3).map(|c| c.to_vec()).collect();
                    triples.sort_by_key(|t| {
                        (
                            t.first().map(|x| x.to_string()).unwrap_or_default(),
                            t.get(1).map(|x| x.to_string()).unwrap_or_default(),
                        )
                    });
                    out.insert(
                        "c".into(),
                        Value::Array(triples.into_iter().flatten().collect()),
                    );
                }
            }
            Value::Object(out)
        }
        Value::Array(xs) => Value::Array(xs.iter().map(canon).collect()),
        other => other.clone(),
    }
}

fn has_unresolved(v: &ciborium::Value) -> bool {
    let mut out = vec![];
    walk_unresolved(v, &mut out);
    !out.is_empty()
}

/// Are the operands of every compiler op free of unresolved parameters?
fn compiler_ops_closed(v: &ciborium::Value) -> bool {
    use ciborium::Value as C;
    match v {
        C::Map(m) => m.iter().all(|(k, x)| {
            if matches!(k, C::Text(t) if t == "EvalCompiler") {
                !has_unresolved(x)
            } else {
                compiler_ops_closed(x)
            }
        }),
        C::Array(xs) => xs.iter().all(compiler_ops_closed),
        C::Tag(_, x) => compiler_ops_closed(x),
        _ => true,
    }
}

#[derive(Clone, Copy, Debug, PartialEq)]
enum Stage {
    Args,
    Inputs,
    Fees,
    Compiler,
}

fn stage_name(s: Stage) -> &'static str {
    match s {
        Stage::Args => "A",
        Stage::Inputs => "I",
        Stage::Fees => "F",
        Stage::Compiler => "C",
    }
}

fn permutations() -> Vec<[Stage; 4]> {
    let base = [Stage::Args, Stage::Inputs, Stage::Fees, Stage::Compiler];
    let mut out = vec![];
    for a in 0..4 {
        for b in 0..4 {
            for c in 0..4 {
                for d in 0..4 {
                    let ix = [a, b, c, d];
                    let mut seen = [false; 4];
                    let mut ok = true;
                    for i in ix {
                        if seen[i] {
                            ok = false;
                        }
                        seen[i] = true;
                    }
                    if ok {
                        out.push([base[a], base[b], base[c], base[d]]);
                    }
                }
            }
        }
    }
    out
}

#[derive(Debug)]
enum SchedOutcome {
    Inadmissible,
    Ok(String),
    Err(String),
    Panic(String),
}

fn run_schedule(
    tx: &tir::Tx,
    args: &Args,
    inputs: &Inputs,
    fees: u64,
    order: &[Stage; 4],
    reduce_mask: u32,
) -> SchedOutcome {
    let r = guarded(|| -> Result<Option<tir::Tx>, reduce::Error> {
        let mut t = tx.clone();
        for (pos, st) in order.iter().enumerate() {
            if reduce_mask & (1 << pos) != 0 {
                t = reduce::reduce(t)?;
            }
            t = match st {
                Stage::Args => reduce::apply_args(t, args)?,
                Stage::Inputs => reduce::apply_inputs(t, inputs)?,
                Stage::Fees => reduce::apply_fees(t, fees)?,
                Stage::Compiler => {
                    let v = generic_value(&t);
                    if !compiler_ops_closed(&v) {
                        return Ok(None);
                    }
                    let mut c = store::default_compiler();
                    t.apply(&mut c)?
                }
            };
        }
        t = reduce::reduce(t)?;
        Ok(Some(t))
    });
    match r {
        Ok(Ok(Some(t))) => SchedOutcome::Ok(canon(&tx_json(&t)).to_string()),
        Ok(Ok(None)) => SchedOutcome::Inadmissible,
        Ok(Err(e)) => SchedOutcome::Err(reduce_err_class(&e)),
        Err(site) => SchedOutcome::Panic(site),
    }
}

fn sched_label(order: &[Stage; 4], mask: u32) -> String {
    let mut s = String::new();
    for (pos, st) in order.iter().enumerate() {
        if mask & (1 << pos) != 0 {
            s.push('r');
        }
        s.push_str(stage_name(*st));
    }
    s.push('r');
    s
}

fn schedules_obs(tx: &tir::Tx, args: &Args, inputs: &Inputs, fees: u64, sample: Option<&mut Rng>) -> Value {
    let perms = permutations();
    let mut oks: BTreeMap<String, String> = BTreeMap::new();
    let mut errs: BTreeMap<String, String> = BTreeMap::new();
    let mut panics: BTreeMap<String, String> = BTreeMap::new();
    let (mut n, mut inadm, mut n_ok, mut n_err) = (0, 0, 0, 0);
    let mut sample = sample;
    for order in &perms {
        for mask in 0..16u32 {
            if let Some(r) = sample.as_deref_mut() {
                // quick tier: a deterministic third of the schedules, always including the
                // repository's two own orders
                let own = (order == &[Stage::Args, Stage::Fees, Stage::Compiler, Stage::Inputs])
                    || (order == &[Stage::Args, Stage::Inputs, Stage::Fees, Stage::Compiler]);
                if !own && r.below(3) != 0 {
                    continue;
                }
            }
            n += 1;
            match run_schedule(tx, args, inputs, fees, order, mask) {
                SchedOutcome::Inadmissible => inadm += 1,
                SchedOutcome::Ok(c) => {
                    n_ok += 1;
                    oks.entry(c).or_insert_with(|| sched_label(order, mask));
                }
                SchedOutcome::Err(e) => {
                    n_err += 1;
                    errs.entry(e).or_insert_with(|| sched_label(order, mask));
                }
                SchedOutcome::Panic(p) => {
                    panics.entry(p).or_insert_with(|| sched_label(order, mask));
                }
            }
        }
    }
    json!({
        "runs": n, "inadmissible": inadm, "ok": n_ok, "err": n_err,
        "distinct_ok": oks.len(),
        "ok_witnesses": oks.values().cloned().collect::<Vec<_>>(),
        "err_classes": errs.iter().map(|(k, v)| json!([k, v])).collect::<Vec<_>>(),
        "panics": panics.iter().map(|(k, v)| json!([k, v])).collect::<Vec<_>>(),
    })
}

fn resolve_err_class(e: &tx3_resolver::Error) -> String {
    use tx3_resolver::Error as RE;
    match e {
        RE::CantCompileNonConstantTir => "CantCompileNonConstantTir".into(),
        RE::CompileError(c) => format!("CompileError:{}", compile_err_class(c)),
        RE::InteropError(_) => "InteropError".into(),
        RE::ReduceError(r) => format!("ReduceError:{}", reduce_err_class(r)),
        RE::ExpectedData(what, _) => format!("ExpectedData:{what}"),
        RE::InputQueryTooBroad => "InputQueryTooBroad".into(),
        RE::InputNotResolved(name, _, _) => format!("InputNotResolved:{name}"),
        RE::MissingTxArg { key, .. } => format!("MissingTxArg:{key}"),
        RE::TransientError(_) => "TransientError".into(),
        RE::StoreError(_) => "StoreError".into(),
        RE::TirEncodingError(_) => "TirEncodingError".into(),
        RE::TxNotAccepted(_) => "TxNotAccepted".into(),
        RE::TxScriptFailure(_) => "TxScriptFailure".into(),
    }
}

pub fn resolve_class(r: &Result<Result<tx3_tir::compile::CompiledTx, tx3_resolver::Error>, String>) -> String {
    match r {
        Ok(Ok(_)) => "ok".into(),
        Ok(Err(e)) => format!("err:{}", resolve_err_class(e)),
        Err(site) => format!("panic:{site}"),
    }
}

pub struct Case {
    pub tx: tir::Tx,
    pub args: Args,
    pub inputs: Inputs,
    pub fees: u64,
}

pub fn make_case(g: &mut Gen, depth: u32) -> Case {
    let tx = g.tx(depth);
    complete_case(g, tx)
}

pub fn complete_case(g: &mut Gen, tx: tir::Tx) -> Case {
    let params = reduce::find_params(&tx);
    let mut args = Args::new();
    for (name, ty) in params.iter() {
        if let Some(v) = g.arg_for(ty) {
            args.insert(name.clone(), v);
        }
    }
    let queries = reduce::find_queries(&tx);
    let mut inputs = Inputs::new();
    for (i, (name, _)) in queries.iter().enumerate() {
        inputs.insert(name.clone(), g.utxo_set(0x40 + i as u8));
    }
    let fees = *g.r.pick(&[0u64, 1, 170_000, 1 << 32]);
    Case {
        tx,
        args,
        inputs,
        fees,
    }
}

pub fn observe(case: &Case, with_schedules: bool, sample: Option<&mut Rng>) -> Value {
    let Case {
        tx,
        args,
        inputs,
        fees,
    } = case;
    let params = reduce::find_params(tx);
    let queries = reduce::find_queries(tx);
    let unresolved0 = unresolved_of(tx);

    let (after_args, _) = outcome_tx(guarded(|| reduce::apply_args(tx.clone(), args)));
    let (after_inputs, _) = outcome_tx(guarded(|| reduce::apply_inputs(tx.clone(), inputs)));
    let (after_fees, _) = outcome_tx(guarded(|| reduce::apply_fees(tx.clone(), *fees)));
    let (reduced0, red0) = outcome_tx(guarded(|| reduce::reduce(tx.clone())));
    let reduced0_twice = red0
        .map(|t| outcome_tx(guarded(|| reduce::reduce(t))).0)
        .unwrap_or(Value::Null);
    let (compiled0, _) = outcome_tx(guarded(|| {
        let mut c = store::default_compiler();
        tx.clone().apply(&mut c)
    }));

    // closure: supply everything that is reported, then look for leftovers
    let applied = guarded(|| -> Result<tir::Tx, reduce::Error> {
        let t = reduce::apply_args(tx.clone(), args)?;
        let t = reduce::apply_fees(t, *fees)?;
        let t = reduce::apply_inputs(t, inputs)?;
        Ok(t)
    });
    let (applied_json, applied_tx) = outcome_tx(applied);
    let unresolved_applied = applied_tx.as_ref().map(unresolved_of);
    let (full, full_tx) = match applied_tx {
        Some(t) => outcome_tx(guarded(|| reduce::reduce(t))),
        None => (Value::Null, None),
    };
    let unresolved_full = full_tx.as_ref().map(unresolved_of);
    let full_twice = full_tx
        .as_ref()
        .map(|t| outcome_tx(guarded(|| reduce::reduce(t.clone()))).0)
        .unwrap_or(Value::Null);

    // the guard: resolution refuses when a reported parameter is absent
    let mut missing = vec![];
    for (name, _) in params.iter() {
        let mut partial = args.clone();
        partial.remove(name);
        let r = guarded(|| {
            let mut c = store::default_compiler();
            let st = store::MemStore::default();
            pollster::block_on(tx3_resolver::resolve_tx(
                AnyTir::V1Beta0(tx.clone()),
                &partial,
                &mut c,
                &st,
                3,
            ))
        });
        missing.push(json!([name, resolve_class(&r)]));
    }

    // one reported parameter left out at a time (the first two): applying the rest leaves exactly that one pending
    let mut partial_obs = vec![];
    for (name, _) in params.iter().take(2) {
        let mut partial = args.clone();
        partial.remove(name);
        let (after, after_tx) = outcome_tx(guarded(|| reduce::apply_args(tx.clone(), &partial)));
        let un = after_tx.as_ref().map(|t| unresolved_json(&unresolved_of(t))).unwrap_or(Value::Null);
        partial_obs.push(json!([name, after, un]));
    }

    let mut obs = json!({
        "partial": partial_obs,
        "params": params.iter().map(|(k, t)| json!([k, ty_json(t)])).collect::<Vec<_>>(),
        "queries": queries.keys().collect::<Vec<_>>(),
        "query_bodies": queries.iter().map(|(k, q)| {
            let (many, coll, cs) = query_children(q);
            json!({"name": k, "many": many, "collateral": coll, "c": cs})
        }).collect::<Vec<_>>(),
        "is_constant": tx.is_constant(),
        "unresolved0": unresolved_json(&unresolved0),
        "after_args": after_args,
        "after_inputs": after_inputs,
        "after_fees": after_fees,
        "reduced0": reduced0,
        "reduced0_twice": reduced0_twice,
        "compiled0": compiled0,
        "applied": applied_json,
        "unresolved_applied": unresolved_applied.map(|u| unresolved_json(&u)).unwrap_or(Value::Null),
        "full": full,
        "full_twice": full_twice,
        "unresolved_full": unresolved_full.map(|u| unresolved_json(&u)).unwrap_or(Value::Null),
        "full_is_constant": full_tx.as_ref().map(|t| json!(t.is_constant())).unwrap_or(Value::Null),
        "missing": missing,
    });
    if with_schedules {
        obs["sched"] = schedules_obs(tx, args, inputs, *fees, sample);
    }
    obs
}

pub fn case_json(case: &Case, obs: Value) -> Value {
    json!({
        "tx": tx_json(&case.tx),
        "args": case.args.iter().map(|(k, v)| json!([k, arg_expr_json(v)])).collect::<Vec<_>>(),
        "inputs": case.inputs.iter().map(|(k, v)| json!([k, utxo_set_json(v)])).collect::<Vec<_>>(),
        "fees": case.fees,
        "cursor": {"slot": store::CURSOR_SLOT, "time": store::CURSOR_TIME.to_string(), "coins_per_byte": 4310, "mainnet": false},
        "obs": obs,
    })
}

/// Position-complete sweep: a parameter-like node in every child position of every kind.
pub fn position_cases(g: &mut Gen) -> Vec<(String, tir::Tx)> {
    use tir::Expression as E;
    let mut out: Vec<(String, tir::Tx)> = vec![];
    let holes: Vec<(&str, Box<dyn Fn() -> E>)> = vec![
        ("value", Box::new(|| param("px", tx3_tir::model::core::Type::Int))),
        ("fees", Box::new(fees_param)),
        (
            "input",
            Box::new(|| {
                input_param(
                    "inx",
                    tir::InputQuery {
                        address: E::Address(ADDR_A.to_vec()),
                        min_amount: ada(1),
                        r#ref: E::None,
                        many: false,
                        collateral: false,
                    },
                )
            }),
        ),
        (
            "input-with-param-query",
            Box::new(|| {
                input_param(
                    "iny",
                    tir::InputQuery {
                        address: param("qaddr", tx3_tir::model::core::Type::Address),
                        min_amount: E::Assets(vec![tir::AssetExpr {
                            policy: E::None,
                            asset_name: E::None,
                            amount: param("qamt", tx3_tir::model::core::Type::Int),
                        }]),
                        r#ref: param("qref", tx3_tir::model::core::Type::UtxoRef),
                        many: true,
                        collateral: false,
                    },
                )
            }),
        ),
    ];
    for (hname, hole) in &holes {
        let h = || hole();
        let contexts: Vec<(&str, E)> = vec![
            ("list.0", E::List(vec![h(), E::Number(1)])),
            ("map.key", E::Map(vec![(h(), E::Number(1))])),
            ("map.value", E::Map(vec![(E::Number(1), h())])),
            ("tuple.0", E::Tuple(Box::new((h(), E::Number(1))))),
            ("tuple.1", E::Tuple(Box::new((E::Number(1), h())))),
            (
                "struct.field",
                E::Struct(tir::StructExpr {
                    constructor: 1,
                    fields: vec![E::Number(0), h()],
                }),
            ),
            (
                "assets.policy",
                E::Assets(vec![tir::AssetExpr {
                    policy: h(),
                    asset_name: E::Bytes(vec![1]),
                    amount: E::Number(1),
                }]),
            ),
            (
                "assets.name",
                E::Assets(vec![tir::AssetExpr {
                    policy: E::Bytes(POLICY1.to_vec()),
                    asset_name: h(),
                    amount: E::Number(1),
                }]),
            ),
            (
                "assets.amount",
                E::Assets(vec![tir::AssetExpr {
                    policy: E::None,
                    asset_name: E::None,
                    amount: h(),
                }]),
            ),
            ("builtin.noop", E::EvalBuiltIn(Box::new(tir::BuiltInOp::NoOp(h())))),
            ("builtin.add.0", E::EvalBuiltIn(Box::new(tir::BuiltInOp::Add(h(), E::Number(1))))),
            ("builtin.add.1", E::EvalBuiltIn(Box::new(tir::BuiltInOp::Add(E::Number(1), h())))),
            ("builtin.sub.0", E::EvalBuiltIn(Box::new(tir::BuiltInOp::Sub(h(), E::Number(1))))),
            ("builtin.sub.1", E::EvalBuiltIn(Box::new(tir::BuiltInOp::Sub(E::Number(1), h())))),
            ("builtin.concat.0", E::EvalBuiltIn(Box::new(tir::BuiltInOp::Concat(h(), E::List(vec![]))))),
            ("builtin.concat.1", E::EvalBuiltIn(Box::new(tir::BuiltInOp::Concat(E::List(vec![]), h())))),
            ("builtin.negate", E::EvalBuiltIn(Box::new(tir::BuiltInOp::Negate(h())))),
            (
                "builtin.property.target",
                E::EvalBuiltIn(Box::new(tir::BuiltInOp::Property(h(), E::Number(0)))),
            ),
            (
                "builtin.property.index",
                E::EvalBuiltIn(Box::new(tir::BuiltInOp::Property(
                    E::List(vec![E::Number(5), E::Number(6)]),
                    h(),
                ))),
            ),
            ("coerce.noop", E::EvalCoerce(Box::new(tir::Coerce::NoOp(h())))),
            ("coerce.intoAssets", E::EvalCoerce(Box::new(tir::Coerce::IntoAssets(h())))),
            ("coerce.intoDatum", E::EvalCoerce(Box::new(tir::Coerce::IntoDatum(h())))),
            (
                "compiler.buildScriptAddress",
                E::EvalCompiler(Box::new(tir::CompilerOp::BuildScriptAddress(h()))),
            ),
            (
                "compiler.computeMinUtxo",
                E::EvalCompiler(Box::new(tir::CompilerOp::ComputeMinUtxo(h()))),
            ),
            (
                "compiler.computeSlotToTime",
                E::EvalCompiler(Box::new(tir::CompilerOp::ComputeSlotToTime(h()))),
            ),
            (
                "compiler.computeTimeToSlot",
                E::EvalCompiler(Box::new(tir::CompilerOp::ComputeTimeToSlot(h()))),
            ),
            (
                "adhoc.value",
                E::AdHocDirective(Box::new(adhoc("custom", vec![("a", E::Number(1)), ("b", h())]))),
            ),
            (
                "query.address",
                input_param(
                    "outer",
                    tir::InputQuery {
                        address: h(),
                        min_amount: E::None,
                        r#ref: E::None,
                        many: false,
                        collateral: false,
                    },
                ),
            ),
            (
                "query.min_amount",
                input_param(
                    "outer",
                    tir::InputQuery {
                        address: E::None,
                        min_amount: h(),
                        r#ref: E::None,
                        many: false,
                        collateral: false,
                    },
                ),
            ),
            (
                "query.ref",
                input_param(
                    "outer",
                    tir::InputQuery {
                        address: E::None,
                        min_amount: E::None,
                        r#ref: h(),
                        many: false,
                        collateral: false,
                    },
                ),
            ),
        ];
        for (cname, ctx) in contexts {
            // every transaction slot in turn
            let slots: Vec<(&str, Box<dyn Fn(&mut tir::Tx, E)>)> = vec![
                ("fees", Box::new(|t, e| t.fees = e)),
                ("references", Box::new(|t, e| t.references.push(e))),
                (
                    "input.utxos",
                    Box::new(|t, e| {
                        t.inputs.push(tir::Input {
                            name: "blk".into(),
                            utxos: e,
                            redeemer: E::None,
                        })
                    }),
                ),
                (
                    "input.redeemer",
                    Box::new(|t, e| {
                        t.inputs.push(tir::Input {
                            name: "blk".into(),
                            utxos: E::UtxoRefs(vec![]),
                            redeemer: e,
                        })
                    }),
                ),
                (
                    "output.address",
                    Box::new(|t, e| {
                        t.outputs.push(tir::Output {
                            address: e,
                            datum: E::None,
                            amount: ada(1),
                            optional: false,
                        })
                    }),
                ),
                (
                    "output.datum",
                    Box::new(|t, e| {
                        t.outputs.push(tir::Output {
                            address: E::Address(ADDR_A.to_vec()),
                            datum: e,
                            amount: ada(1),
                            optional: false,
                        })
                    }),
                ),
                (
                    "output.amount",
                    Box::new(|t, e| {
                        t.outputs.push(tir::Output {
                            address: E::Address(ADDR_A.to_vec()),
                            datum: E::None,
                            amount: e,
                            optional: false,
                        })
                    }),
                ),
                (
                    "validity.since",
                    Box::new(|t, e| {
                        t.validity = Some(tir::Validity {
                            since: e,
                            until: E::None,
                        })
                    }),
                ),
                (
                    "validity.until",
                    Box::new(|t, e| {
                        t.validity = Some(tir::Validity {
                            since: E::None,
                            until: e,
                        })
                    }),
                ),
                (
                    "mint.amount",
                    Box::new(|t, e| {
                        t.mints.push(tir::Mint {
                            amount: e,
                            redeemer: E::None,
                        })
                    }),
                ),
                (
                    "mint.redeemer",
                    Box::new(|t, e| {
                        t.mints.push(tir::Mint {
                            amount: ada(1),
                            redeemer: e,
                        })
                    }),
                ),
                (
                    "burn.amount",
                    Box::new(|t, e| {
                        t.burns.push(tir::Mint {
                            amount: e,
                            redeemer: E::None,
                        })
                    }),
                ),
                (
                    "adhoc.data",
                    Box::new(|t, e| t.adhoc.push(adhoc("withdrawal", vec![("amount", e)]))),
                ),
                (
                    "collateral.utxos",
                    Box::new(|t, e| t.collateral.push(tir::Collateral { utxos: e })),
                ),
                (
                    "signers",
                    Box::new(|t, e| t.signers = Some(tir::Signers { signers: vec![e] })),
                ),
                (
                    "metadata.key",
                    Box::new(|t, e| {
                        t.metadata.push(tir::Metadata {
                            key: e,
                            value: E::Number(1),
                        })
                    }),
                ),
                (
                    "metadata.value",
                    Box::new(|t, e| {
                        t.metadata.push(tir::Metadata {
                            key: E::Number(1),
                            value: e,
                        })
                    }),
                ),
            ];
            // one slot per context, rotating, plus the fees slot for the first context
            let pick = g.r.below(slots.len() as u64) as usize;
            let (sname, setter) = &slots[pick];
            let mut t = empty_tx();
            if *sname != "fees" {
                t.fees = fees_param();
            }
            setter(&mut t, ctx.clone());
            out.push((format!("{hname}@{cname}@{sname}"), t));
        }
    }
    out
}

pub fn run_c06(opts: &Opts, out: &mut Emitter) {
    let mut g = Gen::new(Rng::new(opts.seed));
    // position-complete sweep (twice, so each context meets two slots)
    for _round in 0..(if opts.thorough { 12 } else { 3 }) {
        let cases = position_cases(&mut g);
        for (label, tx) in cases {
            let case = complete_case(&mut g, tx);
            out.case("position", || {
                let mut v = case_json(&case, observe(&case, false, None));
                v["label"] = json!(label);
                v
            });
        }
    }
    // a parameter of every declared type supplied with an argument of every kind
    for (name, datum, val) in arg_kind_sweep() {
        let mut t = empty_tx();
        t.fees = fees_param();
        t.outputs.push(tir::Output { address: tir::Expression::None, datum, amount: ada(2_000_000), optional: false });
        let mut case = complete_case(&mut g, t);
        case.args.insert("v".into(), val);
        out.case("arg-kind-sweep", || {
            let mut v = case_json(&case, observe(&case, false, None));
            v["label"] = json!(name);
            v
        });
    }
    // names the source of the crates itself mentions (whatever a stage has come to treat specially by name): a value
    // parameter and an input block under each of them, as it is, as a prefix and as a suffix
    for (k, lit) in crate::common::magic_names().iter().enumerate() {
        use tx3_tir::model::core::Type;
        let name = match k % 3 {
            0 => lit.clone(),
            1 => format!("{lit}_x"),
            _ => format!("x_{lit}"),
        };
        let q = tir::InputQuery {
            address: tir::Expression::Address(ADDR_A.to_vec()),
            min_amount: tir::Expression::Assets(vec![tir::AssetExpr { policy: tir::Expression::None, asset_name: tir::Expression::None, amount: param(&name, Type::Int) }]),
            r#ref: tir::Expression::None,
            many: false,
            collateral: false,
        };
        let mut t = empty_tx();
        t.fees = fees_param();
        t.inputs.push(tir::Input { name: name.clone(), utxos: input_param(&name, q), redeemer: param(&name, Type::Int) });
        t.outputs.push(tir::Output { address: tir::Expression::None, datum: param(&name, Type::Int), amount: ada(2_000_000), optional: false });
        let mut case = complete_case(&mut g, t);
        case.args.insert(name.clone(), ArgValue::Int(3));
        out.case("named-sweep", || {
            let mut v = case_json(&case, observe(&case, false, None));
            v["label"] = json!(name);
            v
        });
    }
    // random templates
    for k in 0..opts.n {
        g.param_rate = 3 + (k as u64 % 6);
        g.malformed = k % 7 == 0;
        let depth = 1 + (k as u32 % 4);
        let case = make_case(&mut g, depth);
        out.case(if g.malformed { "random-malformed" } else { "random" }, || {
            case_json(&case, observe(&case, false, None))
        });
    }
}

pub fn run_c07(opts: &Opts, out: &mut Emitter) {
    let mut g = Gen::new(Rng::new(opts.seed ^ 0x0707));
    let mut sampler = Rng::new(opts.seed ^ 0x7070);
    // corpus: the reproduced order dependence (until_slot: time_to_slot(s))
    {
        let mut t = empty_tx();
        t.fees = fees_param();
        t.validity = Some(tir::Validity {
            since: tir::Expression::None,
            until: tir::Expression::EvalCompiler(Box::new(tir::CompilerOp::ComputeTimeToSlot(param(
                "s",
                tx3_tir::model::core::Type::Int,
            )))),
        });
        let mut case = complete_case(&mut g, t);
        case.args.insert("s".into(), ArgValue::Int(1_757_611_999));
        out.case("corpus", || case_json(&case, observe(&case, true, None)));
    }
    // redex sweep: every rewrite rule of the reducer met by every class of operand - a constant, a closed
    // expression that folds, a pending parameter, an expression that folds once the argument is there, a
    // substituted parameter, a NoOp wrapper - directly and behind every kind of container access
    for (name, e) in redex_sweep() {
        let mut t = empty_tx();
        t.fees = fees_param();
        t.validity = Some(tir::Validity { since: e.clone(), until: tir::Expression::None });
        t.outputs.push(tir::Output {
            address: tir::Expression::None,
            datum: tir::Expression::None,
            amount: tir::Expression::Assets(vec![tir::AssetExpr { policy: tir::Expression::None, asset_name: tir::Expression::None, amount: e }]),
            optional: false,
        });
        let mut case = complete_case(&mut g, t);
        case.args.insert("q".into(), ArgValue::Int(3));
        let thorough = opts.thorough;
        out.case("redex-sweep", || {
            let s = if thorough { None } else { Some(&mut sampler) };
            let mut v = case_json(&case, observe(&case, true, s));
            v["shape"] = json!(name);
            v
        });
    }
    for (name, e) in concat_sweep().into_iter().chain(coerce_sweep()) {
        let mut t = empty_tx();
        t.fees = fees_param();
        t.outputs.push(tir::Output { address: tir::Expression::None, datum: e, amount: ada(2_000_000), optional: false });
        let mut case = complete_case(&mut g, t);
        case.args.insert("q".into(), ArgValue::Int(3));
        case.args.insert("qb".into(), ArgValue::Bytes(vec![9]));
        let thorough = opts.thorough;
        out.case("concat-sweep", || {
            let s = if thorough { None } else { Some(&mut sampler) };
            let mut v = case_json(&case, observe(&case, true, s));
            v["shape"] = json!(name);
            v
        });
    }
    // twins: two entries of one list that are written differently and become equal only once the arguments are in
    // and reduced (a parameter next to the literal it will receive, two parameters that receive the same value), in
    // every list of a transaction: no stage and no reduction may treat the list as a set
    {
        use tx3_tir::model::core::Type;
        let addr = || tir::Expression::Address(ADDR_A.to_vec());
        let pairs: Vec<(&str, Vec<tir::Expression>)> = vec![
            ("param+literal", vec![param("qa", Type::Address), addr()]),
            ("literal+param", vec![addr(), param("qa", Type::Address)]),
            ("param+param", vec![param("qa", Type::Address), param("qb2", Type::Address)]),
            ("param+param+literal", vec![param("qa", Type::Address), param("qb2", Type::Address), addr()]),
        ];
        for (pn, pair) in pairs.iter() {
            for slot in 0..4u8 {
                let mut t = empty_tx();
                t.fees = fees_param();
                match slot {
                    0 => t.signers = Some(tir::Signers { signers: pair.clone() }),
                    1 => t.references = pair.clone(),
                    2 => {
                        for e in pair {
                            t.outputs.push(tir::Output { address: e.clone(), datum: tir::Expression::None, amount: ada(2_000_000), optional: false });
                        }
                    }
                    _ => {
                        for e in pair {
                            t.metadata.push(tir::Metadata { key: tir::Expression::Number(7), value: e.clone() });
                        }
                    }
                }
                let mut case = complete_case(&mut g, t);
                case.args.insert("qa".into(), ArgValue::Address(ADDR_A.to_vec()));
                case.args.insert("qb2".into(), ArgValue::Address(ADDR_A.to_vec()));
                let thorough = opts.thorough;
                let name = format!("{pn}@{slot}");
                out.case("twin-sweep", || {
                    let s = if thorough { None } else { Some(&mut sampler) };
                    let mut v = case_json(&case, observe(&case, true, s));
                    v["shape"] = json!(name);
                    v
                });
            }
        }
    }
    // arg-kind sweep: a parameter of every declared type met by an argument of every kind (the substitution does
    // not look at the declared type, so each pair must come out as the argument's own expression), in a datum,
    // behind a coercion and inside a list
    for (name, datum, val) in arg_kind_sweep() {
        let mut t = empty_tx();
        t.fees = fees_param();
        t.outputs.push(tir::Output { address: tir::Expression::None, datum, amount: ada(2_000_000), optional: false });
        let mut case = complete_case(&mut g, t);
        case.args.insert("v".into(), val);
        let thorough = opts.thorough;
        out.case("arg-kind-sweep", || {
            let s = if thorough { None } else { Some(&mut sampler) };
            let mut v = case_json(&case, observe(&case, true, s));
            v["shape"] = json!(name);
            v
        });
    }
    // query-shape sweep: an input block and a collateral block whose query states every subset of {address,
    // min_amount, ref}, each part written as a literal or as a parameter, single and multi: whatever a stage or a
    // reduction does to a pending query must not depend on which of its parts are there
    {
        use tx3_tir::model::core::Type;
        for coll in [false, true] {
            for many in [false, true] {
                for shape in 0..36u32 {
                    let (a, m, rf) = (shape % 3, (shape / 3) % 4, shape / 12);
                    let q = tir::InputQuery {
                        address: match a {
                            0 => tir::Expression::None,
                            1 => tir::Expression::Address(crate::tirgen::ADDR_A.to_vec()),
                            _ => param("qa", Type::Address),
                        },
                        min_amount: match m {
                            0 => tir::Expression::None,
                            1 => ada(5),
                            2 => tir::Expression::Assets(vec![tir::AssetExpr {
                                policy: tir::Expression::None,
                                asset_name: tir::Expression::None,
                                amount: param("qm", Type::Int),
                            }]),
                            // a parameter whose declared type is an alias (`type Amount = Int;` lowers to a custom type)
                            _ => tir::Expression::Assets(vec![tir::AssetExpr {
                                policy: tir::Expression::None,
                                asset_name: tir::Expression::None,
                                amount: param("qc", Type::Custom("Amount".into())),
                            }]),
                        },
                        r#ref: match rf {
                            0 => tir::Expression::None,
                            1 => tir::Expression::UtxoRefs(vec![tx3_tir::model::core::UtxoRef { txid: vec![7; 32], index: 1 }]),
                            _ => param("qr", Type::UtxoRef),
                        },
                        many,
                        collateral: coll,
                    };
                    let mut t = empty_tx();
                    t.fees = fees_param();
                    if coll {
                        t.collateral.push(tir::Collateral { utxos: input_param("collateral", q) });
                    } else {
                        t.inputs.push(tir::Input { name: "in0".into(), utxos: input_param("in0", q.clone()), redeemer: tir::Expression::None });
                        t.outputs.push(tir::Output {
                            address: tir::Expression::None,
                            datum: tir::Expression::None,
                            amount: tir::Expression::EvalCoerce(Box::new(tir::Coerce::IntoAssets(input_param("in0", q)))),
                            optional: false,
                        });
                    }
                    let mut case = complete_case(&mut g, t);
                    if m == 3 {
                        case.args.insert("qc".into(), ArgValue::Int(7));
                    }
                    let thorough = opts.thorough;
                    out.case("query-shape-sweep", || {
                        let s = if thorough { None } else { Some(&mut sampler) };
                        case_json(&case, observe(&case, true, s))
                    });
                }
            }
        }
    }
    for k in 0..opts.n {
        g.param_rate = 2 + (k as u64 % 5);
        g.malformed = false;
        let depth = 1 + (k as u32 % 3);
        let case = make_case(&mut g, depth);
        let thorough = opts.thorough;
        out.case("random", || {
            let s = if thorough { None } else { Some(&mut sampler) };
            case_json(&case, observe(&case, true, s))
        });
    }
}

/// A parameter `v` of each declared type, an argument of each kind, three positions (datum, behind a coercion, inside
/// a list): 12 x 9 x 3 datums with the argument to supply.
pub fn arg_kind_sweep() -> Vec<(String, tir::Expression, ArgValue)> {
    use tx3_tir::model::core::{Type, Utxo, UtxoRef};
    let mut set = std::collections::HashSet::new();
    set.insert(Utxo {
        r#ref: UtxoRef { txid: vec![8; 32], index: 2 },
        address: ADDR_A.to_vec(),
        assets: tx3_tir::model::assets::CanonicalAssets::from_naked_amount(7),
        datum: Some(tir::Expression::Number(4)),
        script: None,
    });
    let tys: Vec<(&str, Type)> = vec![
        ("undefined", Type::Undefined),
        ("unit", Type::Unit),
        ("int", Type::Int),
        ("bool", Type::Bool),
        ("bytes", Type::Bytes),
        ("address", Type::Address),
        ("utxo", Type::Utxo),
        ("utxo-ref", Type::UtxoRef),
        ("any-asset", Type::AnyAsset),
        ("list", Type::List),
        ("map", Type::Map),
        ("custom", Type::Custom("Thing".into())),
    ];
    let vals: Vec<(&str, ArgValue)> = vec![
        ("int", ArgValue::Int(-3)),
        ("bool", ArgValue::Bool(false)),
        ("text", ArgValue::String("hello".into())),
        ("empty-text", ArgValue::String(String::new())),
        ("bytes", ArgValue::Bytes(vec![0xca, 0xfe])),
        ("address", ArgValue::Address(ADDR_A.to_vec())),
        ("utxo-ref", ArgValue::UtxoRef(UtxoRef { txid: vec![6; 32], index: 3 })),
        ("utxo-set", ArgValue::UtxoSet(set)),
        ("empty-utxo-set", ArgValue::UtxoSet(Default::default())),
    ];
    let mut out = vec![];
    for (tn, ty) in tys.iter() {
        for (vn, val) in vals.iter() {
            for place in 0..3u8 {
                let p = param("v", ty.clone());
                let datum = match place {
                    0 => p,
                    1 => tir::Expression::EvalCoerce(Box::new(tir::Coerce::IntoDatum(p))),
                    _ => tir::Expression::List(vec![tir::Expression::Number(1), p]),
                };
                out.push((format!("{tn}<-{vn}@{place}"), datum, val.clone()));
            }
        }
    }
    out
}

/// Text- and bytes-valued expressions for the redex sweep of C07: concatenation over every pair of operand classes
/// (empty and non-empty texts and byte strings, nothing, a number, pending parameters of both kinds).
pub fn concat_sweep() -> Vec<(String, tir::Expression)> {
    use tir::{BuiltInOp as B, Expression as E};
    use tx3_tir::model::core::Type;
    let palette: Vec<(&str, E)> = vec![
        ("text-empty", E::String(String::new())),
        ("text", E::String("ab".into())),
        ("bytes-empty", E::Bytes(vec![])),
        ("bytes", E::Bytes(vec![1, 2])),
        ("none", E::None),
        ("number", E::Number(7)),
        ("pending-number", param("q", Type::Int)),
        ("pending-bytes", param("qb", Type::Bytes)),
        ("list", E::List(vec![E::Number(1)])),
    ];
    let mut out = vec![];
    for (an, a) in palette.iter() {
        for (bn, b) in palette.iter() {
            out.push((format!("concat({an},{bn})"), E::EvalBuiltIn(Box::new(B::Concat(a.clone(), b.clone())))));
        }
    }
    out
}

/// Every coercion over every class of operand (nothing, scalars, containers, an asset list, a UTxO set with and
/// without a datum, a pending parameter).
pub fn coerce_sweep() -> Vec<(String, tir::Expression)> {
    use tir::{Coerce, Expression as E};
    use tx3_tir::model::core::{Type, Utxo, UtxoRef};
    let utxo = |datum: Option<E>| {
        let mut set = std::collections::HashSet::new();
        set.insert(Utxo {
            r#ref: UtxoRef { txid: vec![9; 32], index: 0 },
            address: ADDR_A.to_vec(),
            assets: tx3_tir::model::assets::CanonicalAssets::from_naked_amount(5),
            datum,
            script: None,
        });
        E::UtxoSet(set)
    };
    let palette: Vec<(&str, E)> = vec![
        ("none", E::None),
        ("number", E::Number(7)),
        ("text", E::String("ab".into())),
        ("bytes", E::Bytes(vec![1, 2])),
        ("bool", E::Bool(true)),
        ("list", E::List(vec![E::Number(1)])),
        ("map", E::Map(vec![(E::Number(1), E::Number(2))])),
        ("tuple", E::Tuple(Box::new((E::Number(1), E::Number(2))))),
        ("struct", E::Struct(tir::StructExpr { constructor: 1, fields: vec![E::Number(1)] })),
        ("assets", ada(5)),
        ("utxo", utxo(None)),
        ("utxo-with-datum", utxo(Some(E::Number(3)))),
        ("empty-utxo-set", E::UtxoSet(Default::default())),
        ("pending", param("q", Type::Int)),
    ];
    let mut out = vec![];
    for (n, x) in palette.iter() {
        out.push((format!("noop({n})"), E::EvalCoerce(Box::new(Coerce::NoOp(x.clone())))));
        out.push((format!("into_assets({n})"), E::EvalCoerce(Box::new(Coerce::IntoAssets(x.clone())))));
        out.push((format!("into_datum({n})"), E::EvalCoerce(Box::new(Coerce::IntoDatum(x.clone())))));
        out.push((format!("into_script({n})"), E::EvalCoerce(Box::new(Coerce::IntoScript(x.clone())))));
    }
    out
}

/// Integer-valued expressions for the redex sweep of C07: operand classes, containers, operators.
pub fn redex_sweep() -> Vec<(String, tir::Expression)> {
    use tir::{BuiltInOp as B, Coerce, Expression as E};
    use tx3_tir::model::core::Type;
    let q = || param("q", Type::Int);
    let bi = |b: B| E::EvalBuiltIn(Box::new(b));
    let palette: Vec<(&str, E)> = vec![
        ("const", E::Number(5)),
        ("folds", bi(B::Add(E::Number(1), E::Number(2)))),
        ("pending", q()),
        ("folds-after-args", bi(B::Add(q(), E::Number(1)))),
        ("set", E::EvalParam(Box::new(tir::Param::Set(E::Number(4))))),
        ("noop-pending", bi(B::NoOp(bi(B::Add(q(), E::Number(1)))))),
        ("coerce-noop", E::EvalCoerce(Box::new(Coerce::NoOp(bi(B::Sub(q(), E::Number(1))))))),
    ];
    let containers: Vec<(&str, Box<dyn Fn(E) -> E>)> = vec![
        ("list[0]", Box::new(move |x| E::EvalBuiltIn(Box::new(B::Property(E::List(vec![x, E::Number(9)]), E::Number(0)))))),
        ("list[1]", Box::new(move |x| E::EvalBuiltIn(Box::new(B::Property(E::List(vec![E::Number(9), x]), E::Number(1)))))),
        ("list[pending-sibling]", Box::new(move |x| E::EvalBuiltIn(Box::new(B::Property(E::List(vec![x, param("q", Type::Int)]), E::Number(0)))))),
        ("struct.0", Box::new(move |x| E::EvalBuiltIn(Box::new(B::Property(E::Struct(tir::StructExpr { constructor: 0, fields: vec![x, E::Number(9)] }), E::Number(0)))))),
        ("struct.1", Box::new(move |x| E::EvalBuiltIn(Box::new(B::Property(E::Struct(tir::StructExpr { constructor: 1, fields: vec![E::Bytes(vec![1]), x] }), E::Number(1)))))),
        ("tuple.0", Box::new(move |x| E::EvalBuiltIn(Box::new(B::Property(E::Tuple(Box::new((x, E::Number(9)))), E::Number(0)))))),
        ("tuple.1", Box::new(move |x| E::EvalBuiltIn(Box::new(B::Property(E::Tuple(Box::new((E::Number(9), x))), E::Number(1)))))),
        ("map[k].1", Box::new(move |x| {
            let m = E::Map(vec![(E::Number(0), x), (E::Number(1), E::Number(9))]);
            E::EvalBuiltIn(Box::new(B::Property(E::EvalBuiltIn(Box::new(B::Property(m, E::Number(0)))), E::Number(1))))
        })),
        // positions the list does not have, a multiple of 2^64 away from ones it has
        ("list[2^64]", Box::new(move |x| E::EvalBuiltIn(Box::new(B::Property(E::List(vec![x, E::Number(9)]), E::Number(1i128 << 64)))))),
        ("list[2^64+1]", Box::new(move |x| E::EvalBuiltIn(Box::new(B::Property(E::List(vec![E::Number(9), x]), E::Number((1i128 << 64) + 1)))))),
        ("list[-2^64]", Box::new(move |x| E::EvalBuiltIn(Box::new(B::Property(E::List(vec![x, E::Number(9)]), E::Number(-(1i128 << 64))))))),
        ("struct.2^64", Box::new(move |x| E::EvalBuiltIn(Box::new(B::Property(E::Struct(tir::StructExpr { constructor: 0, fields: vec![x, E::Number(9)] }), E::Number(1i128 << 64)))))),
        ("list[index-pending]", Box::new(move |x| E::EvalBuiltIn(Box::new(B::Property(E::List(vec![E::Number(9), E::Number(8), E::Number(7), x]), param("q", Type::Int)))))),
    ];
    let mut out: Vec<(String, E)> = vec![];
    for (pn, p) in palette.iter() {
        out.push((format!("{pn}"), p.clone()));
        out.push((format!("negate({pn})"), bi(B::Negate(p.clone()))));
        for (cn, c) in containers.iter() {
            out.push((format!("{cn}<-{pn}"), c(p.clone())));
            // and an operator on top of the access
            out.push((format!("add({cn}<-{pn}, 1)"), bi(B::Add(c(p.clone()), E::Number(1)))));
        }
        for (pn2, p2) in palette.iter() {
            out.push((format!("add({pn},{pn2})"), bi(B::Add(p.clone(), p2.clone()))));
            out.push((format!("sub({pn},{pn2})"), bi(B::Sub(p.clone(), p2.clone()))));
        }
    }
    out
}

/// C14: the staged pipeline on boundary-heavy and malformed templates, everything under
/// `catch_unwind`; the Lean side flags every observed panic.
pub fn run_c14(opts: &Opts, out: &mut Emitter) {
    let mut g = Gen::new(Rng::new(opts.seed ^ 0x1414));
    for k in 0..opts.n {
        g.param_rate = 2 + (k as u64 % 6);
        g.malformed = k % 2 == 0;
        g.boundary_ints = k % 3 != 0;
        let depth = 1 + (k as u32 % 4);
        let case = make_case(&mut g, depth);
        out.case(if g.malformed { "stages-malformed" } else { "stages-boundary" }, || {
            let mut v = case_json(&case, observe(&case, false, None));
            v["probe"] = json!("stages");
            v
        });
    }
}
