//! The compile probe: constant TIR → `Compiler::compile` on the real crate.
//! Serves C02, C08, C09, C10, C14 (the Lean side reads the payload with its own
//! CBOR/Conway reader).

use crate::common::*;
use crate::store;
use crate::tirgen::{ADDR_A, ADDR_B};
use crate::tirjson::*;
use crate::Opts;
use serde_json::{json, Value};
use std::collections::HashSet;
use tx3_tir::compile::Compiler as _;
use tx3_tir::encoding::AnyTir;
use tx3_tir::model::assets::CanonicalAssets;
use tx3_tir::model::core::{Utxo, UtxoRef};
use tx3_tir::model::v1beta0 as tir;
use tx3_tir::model::v1beta0::Expression as E;

pub struct CGen {
    pub r: Rng,
    /// integers are drawn from the boundary-heavy distribution
    pub boundary: bool,
    /// byte strings of unexpected length, ill-typed fields
    pub malformed: bool,
    pub max_ctor: usize,
}

pub fn policy(i: u8) -> Vec<u8> {
    vec![0x10 + i; 28]
}

fn stake_addr(key: bool, b: u8) -> Vec<u8> {
    let mut v = vec![if key { 0xe0 } else { 0xf0 }];
    v.extend(std::iter::repeat(b).take(28));
    v
}

fn base_addr(pay: u8, stake: u8, script_stake: bool) -> Vec<u8> {
    // type 0: key/key, type 2: key/script; testnet
    let mut v = vec![if script_stake { 0x20 } else { 0x00 }];
    v.extend(std::iter::repeat(pay).take(28));
    v.extend(std::iter::repeat(stake).take(28));
    v
}

impl CGen {
    pub fn new(r: Rng) -> Self {
        CGen {
            r,
            boundary: false,
            malformed: false,
            max_ctor: 8,
        }
    }

    fn amount(&mut self) -> i128 {
        if self.boundary {
            boundary_i128(&mut self.r)
        } else {
            match self.r.below(6) {
                0 => 0,
                1 => self.r.range(1, 30) as i128,
                _ => self.r.range(1, 9_000_000) as i128,
            }
        }
    }

    fn hash_bytes(&mut self, good: usize) -> Vec<u8> {
        if self.malformed && self.r.chance(1, 5) {
            let l = *self.r.pick(&[0usize, 1, 27, 29, 31, 33, 64]);
            self.r.bytes(l)
        } else {
            let b = (self.r.below(6) + 1) as u8;
            vec![b.wrapping_mul(0x11); good]
        }
    }

    pub fn data(&mut self, depth: u32) -> E {
        let k = if depth == 0 { self.r.below(4) } else { self.r.below(9) };
        match k {
            0 => E::Number(self.data_int()),
            1 => E::Bytes({
                let l = *self.r.pick(&[0usize, 1, 5, 32, 63, 64, 65, 100]);
                self.r.bytes(l)
            }),
            2 => E::Bool(self.r.chance(1, 2)),
            3 => E::String((*self.r.pick(&["", "abc", "héllo"])).to_string()),
            4 => E::Struct(tir::StructExpr {
                constructor: self.ctor(),
                fields: {
                    let n = self.r.below(4) as usize;
                    (0..n).map(|_| self.data(depth - 1)).collect()
                },
            }),
            5 => E::List({
                let n = self.r.below(3) as usize;
                (0..n).map(|_| self.data(depth - 1)).collect()
            }),
            6 => E::Map({
                // keys in any order, repeated keys, keys of several kinds: a map in a datum is an association
                // list that has to come out as written
                let n = self.r.below(5) as usize;
                (0..n)
                    .map(|_| {
                        let key = match self.r.below(6) {
                            0 => E::Bytes(vec![self.r.below(3) as u8]),
                            1 => E::String((*self.r.pick(&["a", "b"])).to_string()),
                            _ => E::Number(self.r.below(4) as i128),
                        };
                        (key, self.data(depth - 1))
                    })
                    .collect()
            }),
            7 => E::Address(ADDR_A.to_vec()),
            _ => {
                if self.malformed {
                    match self.r.below(4) {
                        0 => E::None,
                        1 => E::Hash(policy(1)),
                        2 => E::Tuple(Box::new((E::Number(1), E::Number(2)))),
                        _ => E::UtxoRefs(vec![]),
                    }
                } else {
                    E::Number(self.data_int())
                }
            }
        }
    }

    fn data_int(&mut self) -> i128 {
        match self.r.below(4) {
            0 => boundary_i128(&mut self.r),
            1 => self.r.range(-100, 100) as i128,
            // the edges of the machine words an encoder may pass through: 32 and 64 bits, signed and unsigned
            2 => {
                let edge = *self.r.pick(&[1i128 << 31, 1 << 32, 1 << 63, 1 << 64, -(1i128 << 31), -(1i128 << 63), -(1i128 << 64)]);
                edge + self.r.range(-2, 2) as i128
            }
            _ => self.r.range(0, 1 << 40) as i128,
        }
    }

    fn ctor(&mut self) -> usize {
        match self.r.below(4) {
            0 => self.r.below(7) as usize,
            1 => 7 + self.r.below(121) as usize,
            2 => *self.r.pick(&[6usize, 7, 8, 127, 128, 129, 139, 1000]),
            _ => self.r.below(self.max_ctor as u64) as usize,
        }
    }

    fn asset_list(&mut self, for_mint: bool) -> E {
        let n = 1 + self.r.below(3) as usize;
        let mut v = vec![];
        for _ in 0..n {
            let lovelace = !for_mint && self.r.chance(1, 2);
            let amount = if for_mint && !self.boundary {
                self.r.range(1, 1000) as i128
            } else {
                self.amount()
            };
            if lovelace {
                v.push(tir::AssetExpr {
                    policy: E::None,
                    asset_name: E::None,
                    amount: E::Number(amount),
                });
            } else {
                let p = (self.r.below(3)) as u8;
                v.push(tir::AssetExpr {
                    policy: if self.malformed && self.r.chance(1, 8) {
                        E::Bytes(self.hash_bytes(28))
                    } else {
                        E::Bytes(policy(p))
                    },
                    asset_name: if self.r.chance(1, 2) {
                        E::Bytes(vec![b'T', b'0' + self.r.below(2) as u8])
                    } else {
                        E::String("TK".into())
                    },
                    amount: if self.malformed && self.r.chance(1, 12) {
                        E::Bool(true)
                    } else {
                        E::Number(amount)
                    },
                });
            }
        }
        E::Assets(v)
    }

    fn utxo_ref(&mut self) -> UtxoRef {
        UtxoRef {
            txid: if self.malformed && self.r.chance(1, 10) {
                self.hash_bytes(32)
            } else {
                vec![(self.r.below(6) + 1) as u8; 32]
            },
            // output indices whose numeric order differs from their order as decimal strings
            // ... and, now and then, indices congruent modulo the narrower integer widths (nothing bounds the field)
            index: *self.r.pick(&[0u32, 1, 2, 2, 9, 10, 11, 25, 100, 1, 257, 65_537, 65_536, u32::MAX]),
        }
    }

    fn utxos_expr(&mut self) -> E {
        let n = 1 + self.r.below(3) as usize;
        // a reference written as text, `txid#index`: well formed in every spelling the reader admits, and not
        if self.r.chance(1, 8) {
            let u = self.utxo_ref();
            let h = hx(&u.txid);
            let text = match self.r.below(if self.malformed { 9 } else { 4 }) {
                0 => format!("{h}#{}", u.index),
                1 => format!("{}#{}", h.to_uppercase(), u.index),
                2 => format!("{h}#+{}", u.index),
                3 => format!("{h}#0{}", u.index),
                4 => format!("{h}{}", u.index),
                5 => format!("{h}#"),
                6 => format!("{h}#4294967296"),
                7 => format!("{}#1", h.get(1..).unwrap_or("")),
                _ => format!("{h}#-1"),
            };
            return E::String(text);
        }
        if self.r.chance(1, 2) {
            E::UtxoRefs((0..n).map(|_| self.utxo_ref()).collect())
        } else {
            let mut set: HashSet<Utxo> = HashSet::new();
            for _ in 0..n {
                let r = self.utxo_ref();
                set.insert(Utxo {
                    r#ref: r,
                    address: ADDR_A.to_vec(),
                    // what the UTxO holds is nobody's business at this stage (the references are what is compiled):
                    // plain lovelace, lovelace next to a token, a token alone, nothing
                    assets: match self.r.below(5) {
                        0 => (CanonicalAssets::from_naked_amount(6_000_000) + CanonicalAssets::from_defined_asset(&policy(1), b"TK", 10)),
                        1 => CanonicalAssets::from_defined_asset(&policy(2), b"", 1),
                        2 => CanonicalAssets::empty(),
                        _ => CanonicalAssets::from_naked_amount(5_000_000),
                    },
                    datum: if self.r.chance(1, 4) { Some(E::Number(7)) } else { None },
                    script: None,
                });
            }
            E::UtxoSet(set)
        }
    }

    fn address(&mut self) -> E {
        match self.r.below(8) {
            0 => E::Address(ADDR_B.to_vec()),
            1 => E::Hash(self.hash_bytes(28)),
            2 => E::Bytes(base_addr(0x31, 0x32, false)),
            3 if self.malformed => E::Address(self.r.bytes(5)),
            4 if self.malformed => E::String("not-an-address".into()),
            5 if self.malformed => E::Number(1),
            _ => E::Address(ADDR_A.to_vec()),
        }
    }

    pub fn tx(&mut self) -> tir::Tx {
        let mut t = empty_tx();
        t.fees = match self.r.below(6) {
            0 => E::Number(self.amount()),
            1 if self.malformed => E::None,
            _ => ada(self.amount()),
        };
        for i in 0..self.r.below(4) {
            t.inputs.push(tir::Input {
                name: format!("in{i}"),
                utxos: self.utxos_expr(),
                redeemer: if self.r.chance(1, 2) {
                    self.data(2)
                } else {
                    E::None
                },
            });
        }
        for _ in 0..self.r.below(4) {
            t.outputs.push(tir::Output {
                address: self.address(),
                datum: if self.r.chance(1, 2) {
                    self.data(3)
                } else {
                    E::None
                },
                amount: self.asset_list(false),
                optional: self.r.chance(1, 5),
            });
        }
        if self.r.chance(1, 3) {
            t.validity = Some(tir::Validity {
                since: if self.r.chance(1, 2) { E::Number(self.amount()) } else { E::None },
                until: if self.r.chance(1, 2) { E::Number(self.amount()) } else { E::None },
            });
        }
        for _ in 0..self.r.below(3) {
            t.mints.push(tir::Mint {
                amount: self.asset_list(true),
                redeemer: if self.r.chance(2, 3) { self.data(1) } else { E::None },
            });
        }
        for _ in 0..self.r.below(2) {
            t.burns.push(tir::Mint {
                amount: self.asset_list(true),
                redeemer: if self.r.chance(1, 2) { self.data(1) } else { E::None },
            });
        }
        for _ in 0..self.r.below(3) {
            let b = (self.r.below(3) + 1) as u8;
            let cred = match self.r.below(4) {
                0 => E::Address(stake_addr(true, b)),
                1 => E::Address(stake_addr(false, b)),
                2 => E::Address(base_addr(0x41, b, self.r.chance(1, 2))),
                _ if self.malformed => E::Address(ADDR_A.to_vec()),
                _ => E::Address(stake_addr(true, b)),
            };
            let mut fields = vec![("credential", cred), ("amount", E::Number(self.amount()))];
            match self.r.below(3) {
                0 => fields.push(("redeemer", self.data(1))),
                1 => fields.push(("redeemer", E::None)),
                _ => {}
            }
            if self.malformed && self.r.chance(1, 6) {
                fields.remove(self.r.below(2) as usize);
            }
            t.adhoc.push(adhoc("withdrawal", fields));
        }
        if self.r.chance(1, 4) {
            // several witnesses, often of one language version: their order is the template's
            let k = 1 + self.r.below(4);
            let same = *self.r.pick(&[1i128, 2, 3]);
            for _ in 0..k {
                let v = if self.r.chance(2, 3) { same } else { *self.r.pick(&[1i128, 2, 3, 4]) };
                t.adhoc.push(adhoc(
                    "plutus_witness",
                    vec![("version", E::Number(v)), ("script", E::Bytes(self.r.bytes(6)))],
                ));
            }
        }
        if self.r.chance(1, 8) {
            // a valid native script: [0, keyhash]  (sig)
            let mut script = vec![0x82, 0x00, 0x58, 0x1c];
            script.extend(std::iter::repeat(0x77).take(28));
            t.adhoc.push(adhoc(
                "native_witness",
                vec![(
                    "script",
                    if self.malformed && self.r.chance(1, 2) {
                        E::Bytes(vec![0xff, 0x00])
                    } else {
                        E::Bytes(script)
                    },
                )],
            ));
        }
        if self.r.chance(1, 8) {
            t.adhoc.push(adhoc("treasury_donation", vec![("coin", E::Number(self.amount()))]));
        }
        if self.r.chance(1, 8) {
            let mut fields = vec![("to", self.address()), ("amount", self.asset_list(false))];
            if self.r.chance(1, 2) {
                fields.push(("datum", self.data(1)));
            }
            if self.r.chance(1, 2) {
                fields.push(("version", E::Number(*self.r.pick(&[1i128, 2, 3]))));
                fields.push(("script", E::Bytes(self.r.bytes(5))));
            }
            t.adhoc.push(adhoc("cardano_publish", fields));
        }
        if self.r.chance(1, 6) {
            // 1-2 vote delegations: the stake credential of every kind of address that has one (stake key, stake
            // script, base address delegating to a key or to a script, with a key or a script payment part), the
            // DRep as bytes or as a hash; sometimes an address without a stake credential
            for _ in 0..1 + self.r.below(2) {
                let stake = match self.r.below(8) {
                    0 => E::Address(stake_addr(true, 3)),
                    1 => E::Address(stake_addr(false, 4)),
                    2 => E::Address(base_addr(0x31, 0x32, false)),
                    3 => E::Address(base_addr(0x31, 0x33, true)),
                    4 => {
                        // script payment part: type 1 (delegating to a key) or 3 (to a script)
                        let mut a = base_addr(0x35, 0x36, self.r.chance(1, 2));
                        a[0] |= 0x10;
                        E::Address(a)
                    }
                    5 => E::Bytes(stake_addr(true, 7)),
                    6 => E::Address(ADDR_A.to_vec()),
                    _ => E::Address(stake_addr(true, 5)),
                };
                let drep = if self.r.chance(1, 2) { E::Bytes(self.hash_bytes(28)) } else { E::Hash(self.hash_bytes(28)) };
                let mut fields = vec![("stake", stake), ("drep", drep)];
                if self.r.chance(1, 2) {
                    fields.reverse();
                }
                t.adhoc.push(adhoc("vote_delegation_certificate", fields));
            }
        }
        if self.malformed && self.r.chance(1, 8) {
            t.adhoc.push(adhoc(
                "vote_delegation_certificate",
                if self.r.chance(1, 2) {
                    vec![("drep", E::Bytes(self.hash_bytes(28)))]
                } else {
                    vec![
                        ("stake", E::Address(stake_addr(true, 3))),
                        ("drep", E::Bytes(self.hash_bytes(28))),
                    ]
                },
            ));
        }
        if self.r.chance(1, 4) {
            t.collateral.push(tir::Collateral {
                utxos: if self.r.chance(1, 6) { E::None } else { self.utxos_expr() },
            });
        }
        if self.r.chance(1, 4) {
            let n = 1 + self.r.below(3) as usize;
            t.signers = Some(tir::Signers {
                signers: (0..n)
                    .map(|_| {
                        if self.r.chance(1, 2) {
                            E::Bytes(self.hash_bytes(28))
                        } else {
                            E::Address(ADDR_A.to_vec())
                        }
                    })
                    .collect(),
            });
        }
        for _ in 0..self.r.below(3) {
            t.metadata.push(tir::Metadata {
                key: E::Number(if self.boundary { self.amount() } else { self.r.range(0, 3) as i128 }),
                // texts and byte strings of every small length, the empty ones included (a memo left blank is
                // still an entry), and at the 64-byte limit of a metadatum
                value: match self.r.below(6) {
                    0 => E::Number(self.data_int()),
                    1 => E::String((*self.r.pick(&["meta", "", "", "m", "0123456789012345678901234567890123456789012345678901234567890123"])).into()),
                    2 => {
                        let l = *self.r.pick(&[0usize, 0, 1, 4, 64]);
                        E::Bytes(self.r.bytes(l))
                    }
                    4 => E::String(String::new()),
                    _ if self.malformed => E::Bool(true),
                    _ => E::Number(7),
                },
            });
        }
        if self.r.chance(1, 4) {
            t.references.push(E::UtxoRefs(vec![self.utxo_ref()]));
        }
        t
    }
}

pub fn compile_obs(tx: &tir::Tx, mainnet: bool, cost_models: bool) -> Value {
    compile_obs_with(tx, mainnet, if cost_models { &[0, 1, 2] } else { &[] })
}

pub fn compile_obs_with(tx: &tir::Tx, mainnet: bool, versions: &[u8]) -> Value {
    compile_obs_on(tx, mainnet, versions, None)
}

/// A template that touches every part of a transaction a compiler could be tempted to remember: redeemers (so a
/// script-data hash), a datum, a mint, metadata, a withdrawal.
fn warm_up_tx() -> tir::Tx {
    let mut t = empty_tx();
    t.fees = ada(190_000);
    t.inputs.push(tir::Input {
        name: "w".into(),
        utxos: E::UtxoRefs(vec![UtxoRef { txid: vec![9; 32], index: 3 }]),
        redeemer: E::Number(1),
    });
    t.outputs.push(tir::Output { address: E::Address(ADDR_A.to_vec()), datum: E::Number(5), amount: ada(3_000_000), optional: false });
    t.mints.push(tir::Mint {
        amount: E::Assets(vec![tir::AssetExpr { policy: E::Bytes(policy(3)), asset_name: E::Bytes(b"W".to_vec()), amount: E::Number(2) }]),
        redeemer: E::Number(2),
    });
    t.metadata.push(tir::Metadata { key: E::Number(1), value: E::String("warm".into()) });
    t
}

/// `warm`: the compiler has compiled another template before this one and has not been reset (what `compile`
/// answers is a function of the template and the parameters, not of what the instance did earlier).
pub fn compile_obs_on(tx: &tir::Tx, mainnet: bool, versions: &[u8], warm: Option<&tir::Tx>) -> Value {
    let r = guarded(|| {
        let pp = store::pparams_with(mainnet, 44, 155_381, 4310, versions);
        let mut c = store::compiler(pp, Some(0));
        if let Some(w) = warm {
            let _ = c.compile(&AnyTir::V1Beta0(w.clone()));
        }
        c.compile(&AnyTir::V1Beta0(tx.clone()))
    });
    match r {
        Err(site) => json!({"panic": site}),
        Ok(Err(e)) => json!({"err": crate::stages::compile_err_class(&e)}),
        Ok(Ok(ctx)) => {
            // cross-read by pallas' own decoder
            use tx3_cardano::pallas::ledger::traverse::{ComputeHash as _, MultiEraTx};
            let decoded = MultiEraTx::decode(&ctx.payload);
            let decodes = decoded.is_ok();
            // the digest of the body bytes *inside the payload* (the decoder keeps the raw
            // bytes), and of the auxiliary data it carries
            let (hash_matches, aux_matches) = match &decoded {
                Ok(MultiEraTx::Conway(tx)) => {
                    let body_hash = tx.transaction_body.compute_hash();
                    let aux = match (&tx.auxiliary_data, tx.transaction_body.auxiliary_data_hash) {
                        (tx3_cardano::pallas::codec::utils::Nullable::Some(a), Some(h)) => {
                            Value::Bool(a.compute_hash().as_slice() == h.as_slice())
                        }
                        _ => Value::Null,
                    };
                    (Value::Bool(body_hash.as_slice() == ctx.hash.as_slice()), aux)
                }
                _ => (Value::Null, Value::Null),
            };
            json!({"ok": {"payload": hx(&ctx.payload), "hash": hx(&ctx.hash), "fee": ctx.fee,
                          "pallas_decodes": decodes, "hash_matches": hash_matches, "aux_hash_matches": aux_matches}})
        }
    }
}

/// The same template with every UTxO set rebuilt into a fresh `HashSet` (fresh hash seeds, so
/// a different iteration order whenever a set has more than one element).
fn rebuild_sets(tx: &tir::Tx) -> tir::Tx {
    fn fresh(e: &E) -> E {
        match e {
            E::UtxoSet(x) => {
                let mut v: Vec<Utxo> = x.iter().cloned().collect();
                v.reverse();
                E::UtxoSet(v.into_iter().collect::<HashSet<_>>())
            }
            other => other.clone(),
        }
    }
    let mut t = tx.clone();
    for i in t.inputs.iter_mut() {
        i.utxos = fresh(&i.utxos);
    }
    for c in t.collateral.iter_mut() {
        c.utxos = fresh(&c.utxos);
    }
    t.references = t.references.iter().map(fresh).collect();
    t
}

pub fn case(tx: &tir::Tx, mainnet: bool, cost_models: bool) -> Value {
    case_with(tx, mainnet, if cost_models { &[0, 1, 2] } else { &[] })
}

pub fn case_with(tx: &tir::Tx, mainnet: bool, cost_models: &[u8]) -> Value {
    let obs = compile_obs_with(tx, mainnet, cost_models);
    // compiling the same reduced template again (its sets held in fresh hash tables) must give
    // the same bytes
    let again = (0..4).all(|_| compile_obs_with(&rebuild_sets(tx), mainnet, cost_models) == obs);
    let again = if again { obs.clone() } else { Value::Null };
    // ... and so must a compiler that has compiled something else before (another template; this one itself)
    let same_used = compile_obs_on(tx, mainnet, cost_models, Some(&warm_up_tx())) == obs && compile_obs_on(tx, mainnet, cost_models, Some(tx)) == obs;
    json!({"tx": tx_json(tx), "mainnet": mainnet, "cost_models": cost_models, "obs": obs, "same_again": obs == again, "same_used": same_used})
}

pub fn run(opts: &Opts, out: &mut Emitter, prop: &str) {
    let mut g = CGen::new(Rng::new(opts.seed ^ 0xC0));
    // corpus
    {
        // constructor index 7 (C09), mint/burn cancel (C10), withdrawal with redeemer (C08)
        let mut t = empty_tx();
        t.fees = ada(170_000);
        t.inputs.push(tir::Input {
            name: "a".into(),
            utxos: E::UtxoRefs(vec![UtxoRef { txid: vec![2; 32], index: 0 }, UtxoRef { txid: vec![1; 32], index: 1 }]),
            redeemer: E::Struct(tir::StructExpr { constructor: 7, fields: vec![] }),
        });
        t.outputs.push(tir::Output {
            address: E::Address(ADDR_A.to_vec()),
            datum: E::Struct(tir::StructExpr { constructor: 7, fields: vec![E::Number(i128::MAX), E::Number(-(1i128 << 64) - 1)] }),
            amount: ada(2_000_000),
            optional: false,
        });
        let x = tir::AssetExpr { policy: E::Bytes(policy(1)), asset_name: E::Bytes(b"ABC".to_vec()), amount: E::Number(5) };
        t.mints.push(tir::Mint { amount: E::Assets(vec![x.clone()]), redeemer: E::None });
        t.burns.push(tir::Mint { amount: E::Assets(vec![x]), redeemer: E::None });
        t.adhoc.push(adhoc("withdrawal", vec![("credential", E::Address(base_addr(0x41, 0x42, false))), ("amount", E::Number(0)), ("redeemer", E::Number(7))]));
        out.case("corpus", || case(&t, false, true));
        // missing cost model (C14)
        let mut t2 = empty_tx();
        t2.fees = ada(1);
        out.case("corpus-no-cost-model", || case(&t2, false, false));
        // negative lovelace / negative asset (known findings)
        let mut t3 = empty_tx();
        t3.fees = ada(1);
        t3.outputs.push(tir::Output {
            address: E::Address(ADDR_A.to_vec()),
            datum: E::None,
            amount: E::Assets(vec![
                tir::AssetExpr { policy: E::None, asset_name: E::None, amount: E::Number(-1) },
                tir::AssetExpr { policy: E::Bytes(policy(1)), asset_name: E::Bytes(b"A".to_vec()), amount: E::Number(-5) },
            ]),
            optional: false,
        });
        out.case("corpus-negative-output", || case(&t3, false, true));
    }
    // every block that holds UTxOs (an input, the collateral, a reference) x what the UTxOs given to it hold: lovelace
    // only, lovelace and a token, a token alone, nothing, a datum - one of them or two of different kinds
    {
        let mk = |b: u8, kind: usize| Utxo {
            r#ref: UtxoRef { txid: vec![b; 32], index: kind as u32 },
            address: ADDR_A.to_vec(),
            assets: match kind {
                0 => CanonicalAssets::from_naked_amount(5_000_000),
                1 => CanonicalAssets::from_naked_amount(6_000_000) + CanonicalAssets::from_defined_asset(&policy(1), b"TK", 10),
                2 => CanonicalAssets::from_defined_asset(&policy(2), b"", 1),
                3 => CanonicalAssets::empty(),
                _ => CanonicalAssets::from_naked_amount(5_000_000) + CanonicalAssets::from_naked_amount(0),
            },
            datum: if kind == 4 { Some(E::Number(7)) } else { None },
            script: None,
        };
        for slot in 0..3 {
            for a in 0..5usize {
                for b in [None, Some(0usize), Some(1), Some(2)] {
                    let mut set: HashSet<Utxo> = HashSet::new();
                    set.insert(mk(0x21, a));
                    if let Some(b) = b {
                        set.insert(mk(0x22, b));
                    }
                    let mut t = empty_tx();
                    t.fees = ada(1);
                    t.inputs.push(tir::Input { name: "a".into(), utxos: E::UtxoRefs(vec![UtxoRef { txid: vec![1; 32], index: 0 }]), redeemer: E::None });
                    t.outputs.push(tir::Output { address: E::Address(ADDR_A.to_vec()), datum: E::None, amount: ada(2_000_000), optional: false });
                    match slot {
                        0 => t.inputs.push(tir::Input { name: "b".into(), utxos: E::UtxoSet(set), redeemer: E::None }),
                        1 => t.collateral.push(tir::Collateral { utxos: E::UtxoSet(set) }),
                        _ => t.references.push(E::UtxoSet(set)),
                    }
                    out.case("utxo-contents", || case(&t, false, true));
                }
            }
        }
    }
    // every position that holds one number (the fee, the two validity bounds, a withdrawal's amount, the donation, a
    // metadata label) x every shape a reduced expression can have there: a number, a value of no / one / two / three
    // classes (what asset arithmetic leaves: `source - Ada(n)` where the UTxO also holds a token), other leaves
    {
        let tok = |p: u8, n: i128| tir::AssetExpr { policy: E::Bytes(policy(p)), asset_name: E::Bytes(b"TK".to_vec()), amount: E::Number(n) };
        let naked = |n: i128| tir::AssetExpr { policy: E::None, asset_name: E::None, amount: E::Number(n) };
        let shapes: Vec<E> = vec![
            E::Number(7),
            E::Assets(vec![]),
            E::Assets(vec![naked(7_000_000)]),
            E::Assets(vec![tok(1, 3)]),
            E::Assets(vec![naked(7_000_000), tok(1, 3)]),
            E::Assets(vec![tok(1, 3), naked(7_000_000)]),
            E::Assets(vec![naked(4), naked(5)]),
            E::Assets(vec![tok(1, 3), tok(2, 4), naked(9)]),
            E::None,
            E::Bytes(vec![7]),
            E::Bool(true),
            E::String("7".into()),
            E::List(vec![E::Number(7)]),
        ];
        // the amount of a one-entry value is read the same way, to any depth: nest each shape 1, 2, 3 and 5 deep
        // (under a naked entry and under a token entry)
        let nest = |inner: &E, depth: usize, token: bool| {
            let mut e = inner.clone();
            for _ in 0..depth {
                e = E::Assets(vec![tir::AssetExpr {
                    policy: if token { E::Bytes(policy(3)) } else { E::None },
                    asset_name: if token { E::Bytes(b"N".to_vec()) } else { E::None },
                    amount: e,
                }]);
            }
            e
        };
        let mut shapes = shapes;
        let base: Vec<E> = shapes.clone();
        for (k, inner) in base.iter().enumerate() {
            for depth in [1usize, 2, 3, 5] {
                shapes.push(nest(inner, depth, (k + depth) % 2 == 0));
            }
        }
        for pos in 0..6 {
            for shape in shapes.iter() {
                let mut t = empty_tx();
                t.fees = ada(1);
                t.inputs.push(tir::Input { name: "a".into(), utxos: E::UtxoRefs(vec![UtxoRef { txid: vec![1; 32], index: 0 }]), redeemer: E::None });
                t.outputs.push(tir::Output { address: E::Address(ADDR_A.to_vec()), datum: E::None, amount: ada(2_000_000), optional: false });
                match pos {
                    0 => t.fees = shape.clone(),
                    1 => t.validity = Some(tir::Validity { since: shape.clone(), until: E::None }),
                    2 => t.validity = Some(tir::Validity { since: E::None, until: shape.clone() }),
                    3 => t.adhoc.push(adhoc("withdrawal", vec![("credential", E::Address(stake_addr(true, 0x41))), ("amount", shape.clone()), ("redeemer", E::None)])),
                    4 => t.adhoc.push(adhoc("treasury_donation", vec![("coin", shape.clone())])),
                    _ => t.metadata.push(tir::Metadata { key: shape.clone(), value: E::Number(1) }),
                }
                out.case("scalar-shape", || case(&t, false, true));
            }
        }
        // the amount of an entry of an output, of a mint and of a burn is read by the same function: nested entries
        for depth in [1usize, 2, 4] {
            for (k, q) in [2_000_000i128, 0, -1, 1 << 64].into_iter().enumerate() {
                for token in [false, true] {
                    let mut t = empty_tx();
                    t.fees = ada(1);
                    t.inputs.push(tir::Input { name: "a".into(), utxos: E::UtxoRefs(vec![UtxoRef { txid: vec![1; 32], index: 0 }]), redeemer: E::None });
                    let amount = E::Assets(vec![tir::AssetExpr {
                        policy: if token { E::Bytes(policy(1)) } else { E::None },
                        asset_name: if token { E::Bytes(b"TK".to_vec()) } else { E::None },
                        amount: nest(&E::Number(q), depth, (k + depth) % 2 == 0),
                    }]);
                    t.outputs.push(tir::Output { address: E::Address(ADDR_A.to_vec()), datum: E::None, amount, optional: false });
                    out.case("scalar-shape", || case(&t, false, true));
                }
            }
        }
    }
    // mint/burn stress: partial sums that overflow 64 bits although the net fits, exact cancels
    {
        let big = (1i128 << 63) - 1;
        let mk = |amount: i128| tir::AssetExpr { policy: E::Bytes(policy(1)), asset_name: E::Bytes(b"M".to_vec()), amount: E::Number(amount) };
        let shapes: Vec<(Vec<i128>, Vec<i128>)> = vec![
            (vec![big, big], vec![big]),
            (vec![big, 1], vec![2]),
            (vec![big], vec![big, big]),
            (vec![5, 5], vec![10]),
            (vec![big, big, big], vec![big, big]),
            (vec![1], vec![big, 2]),
            // every entry fits 64 bits, the net does not: compilation must fail, not drop the asset
            (vec![big, 1], vec![]),
            (vec![1 << 62, 1 << 62], vec![]),
            (vec![], vec![big, big]),
            (vec![big, big], vec![1]),
            (vec![big, 2], vec![1]),
            (vec![], vec![1 << 62, 1 << 62, 1]),
        ];
        // a single quantity at every edge of the 64- and 128-bit ranges, in a mint and in a burn block (a burn
        // negates: -2^63 is where the two's-complement range is not symmetric)
        for v in [0i128, 1, -1, (1 << 31), -(1 << 31), (1 << 63) - 1, 1 << 63, (1 << 63) + 1, -(1 << 63) + 1, -(1 << 63), -(1 << 63) - 1,
                  (1 << 64) - 1, 1 << 64, -(1 << 64), i128::MAX, i128::MIN, i128::MIN + 1] {
            for burn in [false, true] {
                let mut t = empty_tx();
                t.fees = ada(1);
                let m = tir::Mint { amount: E::Assets(vec![mk(v)]), redeemer: E::None };
                if burn { t.burns.push(m) } else { t.mints.push(m) }
                out.case("mint-boundary", || case(&t, false, true));
            }
        }
        for (ms, bs) in shapes {
            let mut t = empty_tx();
            t.fees = ada(1);
            t.mints.push(tir::Mint { amount: E::Assets(ms.iter().map(|a| mk(*a)).collect()), redeemer: E::None });
            t.burns.push(tir::Mint { amount: E::Assets(bs.iter().map(|a| mk(*a)).collect()), redeemer: E::None });
            out.case("mint-stress", || case(&t, false, true));
            // the same entries spread over one block each
            let mut t2 = empty_tx();
            t2.fees = ada(1);
            for a in ms.iter() {
                t2.mints.push(tir::Mint { amount: E::Assets(vec![mk(*a)]), redeemer: E::None });
            }
            for a in bs.iter() {
                t2.burns.push(tir::Mint { amount: E::Assets(vec![mk(*a)]), redeemer: E::None });
            }
            out.case("mint-stress-blocks", || case(&t2, false, true));
        }
        // random: 2-5 entries of magnitude around 2^61..2^63 over 1-3 blocks and two asset names
        let mut r = crate::common::Rng::new(opts.seed ^ 0x3173);
        for _ in 0..(opts.n / 10).max(40) {
            let mut t = empty_tx();
            t.fees = ada(1);
            let n = 2 + r.below(4);
            for _ in 0..n {
                let mag: i128 = match r.below(4) {
                    0 => big,
                    1 => 1 << 62,
                    2 => (1 << 62) + r.below(1000) as i128,
                    _ => (1i128 << 61) * (1 + r.below(3) as i128),
                };
                let name: &[u8] = if r.chance(1, 4) { b"N" } else { b"M" };
                let e = tir::AssetExpr { policy: E::Bytes(policy(1)), asset_name: E::Bytes(name.to_vec()), amount: E::Number(mag) };
                let block = tir::Mint { amount: E::Assets(vec![e]), redeemer: E::None };
                if r.chance(2, 3) {
                    t.mints.push(block)
                } else {
                    t.burns.push(block)
                }
            }
            out.case("mint-stress-random", || case(&t, false, true));
        }
    }
    // a policy whose mints and burns cancel exactly, guarded by a redeemer, next to a policy that is really minted
    // (sorting before or after it): the cancelled policy is not in the body, its redeemer has nothing to point at
    for (gone, live) in [(0u8, 1u8), (1, 0), (2, 1), (0, 2)] {
        for guard in 0..3 {
            for live_guarded in [false, true] {
                let mut t = empty_tx();
                t.fees = ada(1);
                let entry = |p: u8, n: i128| E::Assets(vec![tir::AssetExpr { policy: E::Bytes(policy(p)), asset_name: E::Bytes(b"TK".to_vec()), amount: E::Number(n) }]);
                let unit = E::Struct(tir::StructExpr { constructor: 0, fields: vec![] });
                t.mints.push(tir::Mint { amount: entry(gone, 5), redeemer: if guard != 1 { E::Number(7) } else { E::None } });
                t.burns.push(tir::Mint { amount: entry(gone, 5), redeemer: if guard != 0 { E::Number(7) } else { E::None } });
                t.mints.push(tir::Mint { amount: entry(live, 3), redeemer: if live_guarded { unit.clone() } else { E::None } });
                out.case("mint-cancelled-guarded", || case(&t, false, true));
            }
        }
    }
    // optional outputs next to a plain one: every kind of amount an output can be asked to hold - fine, empty
    // (the output vanishes), and beyond what the ledger field holds (the compilation fails, whether or not the
    // output is optional), as one entry, as two entries of one class, as lovelace, as a token
    {
        let two64: i128 = 1 << 64;
        let amounts: Vec<(&str, Vec<(bool, i128)>)> = vec![
            ("fine", vec![(true, 2_000_000), (false, 7)]),
            ("empty", vec![(true, 0)]),
            ("empty-token", vec![(false, 0)]),
            ("token-max", vec![(true, 2_000_000), (false, two64 - 1)]),
            ("token-2^64", vec![(true, 2_000_000), (false, two64)]),
            ("token-2^64+20", vec![(false, two64 + 20)]),
            ("token-i128-max", vec![(true, 1), (false, i128::MAX)]),
            ("token-sum-2^64", vec![(false, 1 << 63), (false, 1 << 63)]),
            ("token-sum-fits", vec![(false, (1 << 63) - 1), (false, 1 << 63)]),
            ("lovelace-max", vec![(true, two64 - 1)]),
            ("lovelace-sum-2^64", vec![(true, 1 << 63), (true, 1 << 63)]),
        ];
        for (name, entries) in amounts.iter() {
            for optional in [true, false] {
                for first in [true, false] {
                    let mut t = empty_tx();
                    t.fees = ada(1);
                    let plain = tir::Output { address: E::Address(ADDR_A.to_vec()), datum: E::None, amount: ada(1_500_000), optional: false };
                    let v: Vec<tir::AssetExpr> = entries
                        .iter()
                        .map(|(lovelace, n)| {
                            if *lovelace {
                                tir::AssetExpr { policy: E::None, asset_name: E::None, amount: E::Number(*n) }
                            } else {
                                tir::AssetExpr { policy: E::Bytes(policy(1)), asset_name: E::Bytes(b"TK".to_vec()), amount: E::Number(*n) }
                            }
                        })
                        .collect();
                    let special = tir::Output { address: E::Address(ADDR_A.to_vec()), datum: E::None, amount: E::Assets(v), optional };
                    t.outputs = if first { vec![special, plain] } else { vec![plain, special] };
                    let gen = format!("output-amounts:{name}");
                    out.case(&gen, || case(&t, false, true));
                }
            }
        }
    }
    // text where an address, a credential, a datum or a metadata value is expected: a long text with one character
    // of 2 or 4 bytes at every position in turn, and runs of 2-byte characters of every length up to 80 bytes - an
    // error message that echoes part of the text must cut it at a character boundary
    if prop == "C14" {
        const TEXT: &str = "addr1qx0rs5qrvx9qkndwu0w88t0xghgy3f53ha76kpx8uf496m9rn2ursdm3r0fgf5pmm4lpufshl8lquk5yykg4pd00hp6quf2hh2";
        let mut texts: Vec<String> = vec![];
        for wide in ['é', '😀'] {
            for at in 0..TEXT.len() {
                let mut t: Vec<char> = TEXT.chars().collect();
                t[at] = wide;
                texts.push(t.into_iter().collect());
            }
        }
        for n in 1..=40 {
            texts.push("é".repeat(n));
            texts.push(format!("a{}", "é".repeat(n)));
        }
        for text in texts.iter() {
            for slot in 0..4 {
                let mut t = empty_tx();
                t.fees = ada(1);
                let mut o = tir::Output { address: E::Address(ADDR_A.to_vec()), datum: E::None, amount: ada(2_000_000), optional: false };
                match slot {
                    0 => o.address = E::String(text.clone()),
                    1 => o.datum = E::String(text.clone()),
                    2 => t.adhoc.push(adhoc("withdrawal", vec![("credential", E::String(text.clone())), ("amount", E::Number(0)), ("redeemer", E::None)])),
                    _ => t.metadata.push(tir::Metadata { key: E::Number(1), value: E::String(text.clone()) }),
                }
                t.outputs.push(o);
                out.case("wide-text-sweep", || case(&t, false, true));
            }
        }
    }
    for k in 0..opts.n {
        g.boundary = match prop {
            "C02" | "C14" => k % 2 == 0,
            _ => k % 5 == 0,
        };
        g.malformed = match prop {
            "C14" => k % 2 == 1,
            _ => k % 9 == 0,
        };
        let t = g.tx();
        let mainnet = g.r.chance(1, 3);
        // the cost models the parameters hold: usually all three, sometimes none, sometimes only some versions
        let cm: Vec<u8> = match g.r.below(10) {
            0 => vec![],
            1 => vec![2],
            2 => vec![0, 1],
            3 => vec![*g.r.pick(&[0u8, 1, 2])],
            _ => vec![0, 1, 2],
        };
        out.case(
            if g.malformed { "random-malformed" } else if g.boundary { "random-boundary" } else { "random" },
            || case_with(&t, mainnet, &cm),
        );
    }
}
