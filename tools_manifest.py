#!/usr/bin/env python3
"""Regenerates MANIFEST.json from the per-property modules in vlib/ (single source of truth)."""
import importlib, json, os, sys
sys.path.insert(0, os.path.dirname(os.path.abspath(__file__)))
props = [json.loads(l) for l in open("/verif/properties.jsonl")]
checks, claimed = [], []
for p in props:
    pid = p["id"]
    try:
        mod = importlib.import_module(f"vlib.{pid.lower()}")
    except ModuleNotFoundError:
        continue
    claimed.append(pid)
    checks.append({
        "property_id": pid,
        "quick_cmd": f"./check {pid} --tier quick",
        "thorough_cmd": f"./check {pid} --tier thorough",
        "evidence_file": f"/verif/evidence/{pid}.json",
        "replay_cmd_template": f"./check {pid} --replay {{path}}",
        "engine": "lean4-model+correspondence",
        "level_claimed": {"category": getattr(mod, "LEVEL", "proof"), "text": mod.LEVEL_TEXT, "design_ref": f"DESIGN.md §6 {pid}"},
        "level_note": mod.LEVEL_NOTE,
        "technique": getattr(mod, "TECHNIQUE", "Lean 4 proof over hand-written model + differential correspondence"),
    })
hooks_commits = ["bea94a7"]  # parsing::verif_pair_tree (crates/tx3-lang/src/parsing.rs), check-cfg lint entry in crates/tx3-lang/Cargo.toml
m = {
    "version": 1,
    "setup_cmd": "./setup.sh",
    "hooks": {"guard": "tx3_verif", "enable": "RUSTFLAGS=\"--cfg tx3_verif\" (set by /verif/vlib/core.py for harness builds only)",
              "baseline_off_cmd": "cd /repo && cargo test --workspace --no-fail-fast --offline", "source_commits": hooks_commits, "add_only": True},
    "engines": [{"name": "lean4-model+correspondence", "path": "/verif/lean, /verif/harness, /verif/translator, /verif/vlib",
                 "serves_properties": claimed,
                 "kind_free_text": "Lean 4 model and theorems; Python translator regenerating the Lean grammar from tx3.pest; Rust differential harness + compiled Lean driver; Python orchestration"}],
    "checks": checks,
    "notes": "Every check: translator -> lake build of the property's theorems -> #print axioms audit -> harness built against /repo's working tree -> generated cases through the real crates -> Lean driver judges correspondence (model vs code) and spec (code vs property). See DESIGN.md.",
    "not_applicable": [{"property_id": p["id"], "reason": "not yet claimed: check under construction (DESIGN.md §9 build order); the technique applies and will be used"} for p in props if p["id"] not in claimed],
}
json.dump(m, open("/verif/MANIFEST.json", "w"), indent=1)
print("claimed:", claimed)
