//! IR data types (schema) and the traversal methods over them.

use crate::{fnv, lean_str, tokens_of};
use serde_json::{json, Value};
use std::collections::{BTreeMap, BTreeSet};
use syn::visit::{self, Visit};

pub struct Field {
    pub name: String,
    pub ty: String,
    pub serde: Vec<String>,
}
pub struct Variant {
    pub name: String,
    pub fields: Vec<Field>,
    pub serde: Vec<String>,
}
pub struct TypeDef {
    pub file: String,
    pub name: String,
    pub is_enum: bool,
    pub derives: Vec<String>,
    pub serde: Vec<String>,
    /// hand-written impls of Serialize/Deserialize/Hash/PartialEq/Eq for this type in the same file
    pub manual_impls: Vec<String>,
    pub variants: Vec<Variant>,
}

fn serde_attrs(attrs: &[syn::Attribute]) -> Vec<String> {
    attrs.iter().filter(|a| a.path().is_ident("serde")).map(|a| tokens_of(&a.meta)).collect()
}

fn fields_of(f: &syn::Fields) -> Vec<Field> {
    match f {
        syn::Fields::Named(n) => n.named.iter().map(|x| Field { name: x.ident.as_ref().map(|i| i.to_string().trim_start_matches("r#").to_string()).unwrap_or_default(), ty: tokens_of(&x.ty), serde: serde_attrs(&x.attrs) }).collect(),
        syn::Fields::Unnamed(u) => u.unnamed.iter().enumerate().map(|(i, x)| Field { name: i.to_string(), ty: tokens_of(&x.ty), serde: serde_attrs(&x.attrs) }).collect(),
        syn::Fields::Unit => vec![],
    }
}

fn derives(attrs: &[syn::Attribute]) -> Vec<String> {
    let mut out = vec![];
    for a in attrs {
        if a.path().is_ident("derive") {
            let t = tokens_of(&a.meta);
            let inner = t.trim_start_matches("derive").trim().trim_start_matches('(').trim_end_matches(')');
            out.extend(inner.split(',').map(|x| x.trim().to_string()).filter(|x| !x.is_empty()));
        }
    }
    out
}

pub fn types_of(file: &str, ast: &syn::File) -> Vec<TypeDef> {
    let mut out = vec![];
    for item in &ast.items {
        match item {
            syn::Item::Struct(s) => out.push(TypeDef {
                file: file.to_string(),
                name: s.ident.to_string(),
                is_enum: false,
                derives: derives(&s.attrs),
                serde: serde_attrs(&s.attrs),
                manual_impls: vec![],
                variants: vec![Variant { name: String::new(), fields: fields_of(&s.fields), serde: vec![] }],
            }),
            syn::Item::Enum(e) => out.push(TypeDef {
                file: file.to_string(),
                name: e.ident.to_string(),
                is_enum: true,
                derives: derives(&e.attrs),
                serde: serde_attrs(&e.attrs),
                manual_impls: vec![],
                variants: e.variants.iter().map(|v| Variant { name: v.ident.to_string(), fields: fields_of(&v.fields), serde: serde_attrs(&v.attrs) }).collect(),
            }),
            _ => {}
        }
    }
    // hand-written impls of the traits whose derived form the wire model assumes
    for item in &ast.items {
        if let syn::Item::Impl(i) = item {
            if let Some((_, path, _)) = &i.trait_ {
                let tr = path.segments.last().map(|s| s.ident.to_string()).unwrap_or_default();
                if ["Serialize", "Deserialize", "Hash", "PartialEq", "Eq", "Ord", "PartialOrd"].contains(&tr.as_str()) {
                    let ty = tokens_of(&i.self_ty);
                    if let Some(t) = out.iter_mut().find(|t| t.name == ty) {
                        t.manual_impls.push(tr);
                    }
                }
            }
        }
    }
    out
}

/// Identifiers of a type expression (`Vec < ( Expression , Expression ) >` → Vec, Expression, Expression).
fn type_idents(ty: &str) -> Vec<String> {
    let mut out = vec![];
    let mut cur = String::new();
    for c in ty.chars() {
        if c.is_alphanumeric() || c == '_' {
            cur.push(c);
        } else if !cur.is_empty() {
            out.push(std::mem::take(&mut cur));
        }
    }
    if !cur.is_empty() {
        out.push(cur);
    }
    out
}

/// The set of type names from which an `Expression` is reachable through fields (least fixed point).
fn expr_carriers(types: &[TypeDef]) -> BTreeSet<String> {
    let mut set: BTreeSet<String> = BTreeSet::new();
    set.insert("Expression".to_string());
    loop {
        let mut changed = false;
        for t in types {
            if set.contains(&t.name) {
                continue;
            }
            let carries = t.variants.iter().any(|v| v.fields.iter().any(|f| type_idents(&f.ty).iter().any(|i| set.contains(i))));
            if carries {
                set.insert(t.name.clone());
                changed = true;
            }
        }
        if !changed {
            break;
        }
    }
    set
}

// ------------------------------------------------------------------ traversals

pub struct Arm {
    pub variant: String,
    pub bindings: Vec<String>,
    pub used: Vec<String>,
    pub wildcard: bool,
}
pub struct Method {
    pub file: String,
    pub ty: String,
    pub tr: String,
    pub method: String,
    pub self_fields: Vec<String>,
    pub arms: Vec<Arm>,
}

struct IdentUse(BTreeSet<String>);
impl<'ast> Visit<'ast> for IdentUse {
    fn visit_ident(&mut self, i: &'ast proc_macro2::Ident) {
        self.0.insert(i.to_string());
    }
    fn visit_macro(&mut self, mac: &'ast syn::Macro) {
        // identifiers inside macro bodies (vec![x, y], format!(..)) count as uses
        for t in mac.tokens.clone() {
            collect_idents(t, &mut self.0);
        }
    }
}
fn collect_idents(t: proc_macro2::TokenTree, out: &mut BTreeSet<String>) {
    match t {
        proc_macro2::TokenTree::Ident(i) => {
            out.insert(i.to_string());
        }
        proc_macro2::TokenTree::Group(g) => {
            for x in g.stream() {
                collect_idents(x, out);
            }
        }
        _ => {}
    }
}

struct SelfFields(BTreeSet<String>);
impl<'ast> Visit<'ast> for SelfFields {
    fn visit_expr_field(&mut self, e: &'ast syn::ExprField) {
        if let syn::Expr::Path(p) = &*e.base {
            if p.path.is_ident("self") {
                if let syn::Member::Named(n) = &e.member {
                    self.0.insert(n.to_string().trim_start_matches("r#").to_string());
                }
            }
        }
        visit::visit_expr_field(self, e);
    }
    fn visit_macro(&mut self, mac: &'ast syn::Macro) {
        // `vec![&self.a, &self.b]`
        let toks: Vec<proc_macro2::TokenTree> = flatten(mac.tokens.clone());
        for w in toks.windows(3) {
            if let (proc_macro2::TokenTree::Ident(a), proc_macro2::TokenTree::Punct(p), proc_macro2::TokenTree::Ident(b)) = (&w[0], &w[1], &w[2]) {
                if a == "self" && p.as_char() == '.' {
                    self.0.insert(b.to_string().trim_start_matches("r#").to_string());
                }
            }
        }
    }
}
fn flatten(ts: proc_macro2::TokenStream) -> Vec<proc_macro2::TokenTree> {
    let mut out = vec![];
    for t in ts {
        match t {
            proc_macro2::TokenTree::Group(g) => out.extend(flatten(g.stream())),
            other => out.push(other),
        }
    }
    out
}

fn pat_bindings(p: &syn::Pat, out: &mut Vec<String>, variant: &mut String, wildcard: &mut bool) {
    match p {
        syn::Pat::Ident(i) => out.push(i.ident.to_string()),
        syn::Pat::Wild(_) => {
            out.push("_".into());
        }
        syn::Pat::Rest(_) => out.push("..".into()),
        syn::Pat::TupleStruct(t) => {
            *variant = t.path.segments.last().map(|s| s.ident.to_string()).unwrap_or_default();
            for e in t.elems.iter() {
                pat_bindings(e, out, &mut String::new(), &mut false);
            }
        }
        syn::Pat::Struct(s) => {
            *variant = s.path.segments.last().map(|x| x.ident.to_string()).unwrap_or_default();
            for f in s.fields.iter() {
                pat_bindings(&f.pat, out, &mut String::new(), &mut false);
            }
            if s.rest.is_some() {
                out.push("..".into());
            }
        }
        syn::Pat::Path(pp) => {
            *variant = pp.path.segments.last().map(|x| x.ident.to_string()).unwrap_or_default();
        }
        syn::Pat::Reference(r) => pat_bindings(&r.pat, out, variant, wildcard),
        syn::Pat::Tuple(t) => {
            for e in t.elems.iter() {
                pat_bindings(e, out, &mut String::new(), &mut false);
            }
        }
        syn::Pat::Or(o) => {
            // `A(x) | B(x)`: one arm per alternative is what the tables want; keep the first's name
            // joined so that it matches no single variant (reported, not guessed)
            let mut names = vec![];
            for c in o.cases.iter() {
                let mut v = String::new();
                let mut b = vec![];
                pat_bindings(c, &mut b, &mut v, &mut false);
                names.push(v);
                if out.is_empty() {
                    out.extend(b);
                }
            }
            *variant = names.join("|");
        }
        _ => {}
    }
    if let syn::Pat::Wild(_) = p {
        *wildcard = true;
    }
}

struct FirstSelfMatch<'a>(Option<&'a syn::ExprMatch>);
impl<'a> Visit<'a> for FirstSelfMatch<'a> {
    fn visit_expr_match(&mut self, m: &'a syn::ExprMatch) {
        if self.0.is_none() {
            let scrut = tokens_of(&m.expr);
            if scrut == "self" || scrut == "& self" || scrut == "* self" || scrut == "& * self" {
                self.0 = Some(m);
                return;
            }
        }
        visit::visit_expr_match(self, m);
    }
}

pub fn methods_of(file: &str, ast: &syn::File) -> Vec<Method> {
    let mut out = vec![];
    for item in &ast.items {
        let syn::Item::Impl(i) = item else { continue };
        let Some((_, path, _)) = &i.trait_ else { continue };
        let tr = path.segments.last().map(|s| s.ident.to_string()).unwrap_or_default();
        if !["Composite", "Apply", "Node"].contains(&tr.as_str()) {
            continue;
        }
        let ty = tokens_of(&i.self_ty);
        for it in &i.items {
            let syn::ImplItem::Fn(f) = it else { continue };
            let mut sf = SelfFields(BTreeSet::new());
            sf.visit_block(&f.block);
            let mut fm = FirstSelfMatch(None);
            fm.visit_block(&f.block);
            let mut arms = vec![];
            if let Some(m) = fm.0 {
                for a in &m.arms {
                    let mut bindings = vec![];
                    let mut variant = String::new();
                    let mut wildcard = false;
                    pat_bindings(&a.pat, &mut bindings, &mut variant, &mut wildcard);
                    let mut iu = IdentUse(BTreeSet::new());
                    iu.visit_expr(&a.body);
                    if let Some((_, g)) = &a.guard {
                        iu.visit_expr(g);
                    }
                    let used: Vec<String> = bindings.iter().filter(|b| *b != "_" && *b != ".." && iu.0.contains(*b)).cloned().collect();
                    arms.push(Arm { variant, bindings, used, wildcard });
                }
            }
            out.push(Method { file: file.to_string(), ty: ty.clone(), tr: tr.clone(), method: f.sig.ident.to_string(), self_fields: sf.0.into_iter().collect(), arms });
        }
    }
    out
}

// ------------------------------------------------------------------ constants and names

struct NameCompares(Vec<(String, String)>);
impl<'ast> Visit<'ast> for NameCompares {
    fn visit_expr_binary(&mut self, e: &'ast syn::ExprBinary) {
        if let syn::BinOp::Eq(_) = e.op {
            let l = tokens_of(&e.left);
            if let syn::Expr::Lit(syn::ExprLit { lit: syn::Lit::Str(s), .. }) = &*e.right {
                if l.contains("name") {
                    self.0.push((l, s.value()));
                }
            }
        }
        visit::visit_expr_binary(self, e);
    }
}

struct NameFields(Vec<String>);
impl<'ast> Visit<'ast> for NameFields {
    fn visit_field_value(&mut self, f: &'ast syn::FieldValue) {
        if let syn::Member::Named(n) = &f.member {
            if n == "name" {
                let t = tokens_of(&f.expr);
                if let Some(start) = t.find('"') {
                    if let Some(end) = t[start + 1..].find('"') {
                        self.0.push(t[start + 1..start + 1 + end].to_string());
                    }
                }
            }
        }
        visit::visit_field_value(self, f);
    }
}

pub fn emit(parsed: &BTreeMap<String, syn::File>) -> (String, Value) {
    let schema_files = ["crates/tx3-tir/src/model/v1beta0.rs", "crates/tx3-tir/src/model/core.rs", "crates/tx3-tir/src/model/assets.rs", "crates/tx3-tir/src/encoding.rs"];
    let mut types: Vec<TypeDef> = vec![];
    for f in schema_files {
        if let Some(ast) = parsed.get(f) {
            types.extend(types_of(f, ast));
        }
    }
    let carriers = expr_carriers(&types);
    let trav_files = ["crates/tx3-tir/src/reduce/mod.rs", "crates/tx3-tir/src/model/v1beta0.rs", "crates/tx3-tir/src/compile.rs"];
    let mut methods: Vec<Method> = vec![];
    for f in trav_files {
        if let Some(ast) = parsed.get(f) {
            methods.extend(methods_of(f, ast));
        }
    }
    // constants
    let mut consts: Vec<(String, String, String)> = vec![];
    for (file, ast) in parsed.iter() {
        for item in &ast.items {
            if let syn::Item::Const(c) = item {
                consts.push((file.clone(), c.ident.to_string(), tokens_of(&c.expr)));
            }
        }
    }
    // directive names: produced by lowering, consumed by the compiler
    let mut produced: Vec<String> = vec![];
    if let Some(ast) = parsed.get("crates/tx3-lang/src/cardano.rs") {
        let mut v = NameFields(vec![]);
        v.visit_file(ast);
        produced = v.0;
    }
    let mut consumed: Vec<String> = vec![];
    if let Some(ast) = parsed.get("crates/tx3-cardano/src/compile/mod.rs") {
        let mut v = NameCompares(vec![]);
        v.visit_file(ast);
        consumed = v.0.into_iter().map(|x| x.1).collect();
    }
    produced.sort();
    produced.dedup();
    consumed.sort();
    consumed.dedup();

    let key = |s: &str| fnv(s);
    let mut s = String::new();
    s.push_str("/- GENERATED by /verif/translator from /repo's Rust sources on every run. Do not edit. -/\n\nnamespace Tx3.Gen\n\n");
    s.push_str("/-- Names are carried twice: as text (for reading and messages) and as FNV-1a-64 keys (for\nobligations, which must reduce in the kernel). `carries` = an `Expression` is reachable from the\nfield's type through the schema. -/\nstructure GField where\n  name : String\n  ty : String\n  carries : Bool\n  serdeAttrs : Nat\n\nstructure GVariant where\n  key : Nat\n  name : String\n  fields : List GField\n  serdeAttrs : Nat\n\n/-- `derivesSerde`: both `Serialize` and `Deserialize` are derived; `serdeAttrs`: number of\n`#[serde(..)]` attributes on the item; `manualImpls`: hand-written impls of Serialize, Deserialize,\nHash, PartialEq, Eq, Ord, PartialOrd (count). The texts are in `serdeNotes`. -/\nstructure GType where\n  key : Nat\n  name : String\n  isEnum : Bool\n  derives : List String\n  derivesSerde : Bool\n  serdeAttrs : Nat\n  manualImpls : Nat\n  variants : List GVariant\n\n");
    s.push_str("def schema : List GType := [\n");
    for (i, t) in types.iter().enumerate() {
        let ds = t.derives.iter().any(|d| d.ends_with("Serialize") && !d.ends_with("Deserialize")) && t.derives.iter().any(|d| d.ends_with("Deserialize"));
        s.push_str(&format!("  ⟨{}, {}, {}, [{}], {}, {}, {}, [\n", key(&t.name), lean_str(&t.name), t.is_enum, t.derives.iter().map(|d| lean_str(d)).collect::<Vec<_>>().join(", "), ds, t.serde.len(), t.manual_impls.len()));
        for (j, v) in t.variants.iter().enumerate() {
            let fs: Vec<String> = v
                .fields
                .iter()
                .map(|f| format!("⟨{}, {}, {}, {}⟩", lean_str(&f.name), lean_str(&f.ty), type_idents(&f.ty).iter().any(|i| carriers.contains(i)), f.serde.len()))
                .collect();
            s.push_str(&format!("    ⟨{}, {}, [{}], {}⟩{}\n", key(&v.name), lean_str(&v.name), fs.join(", "), v.serde.len(), if j + 1 < t.variants.len() { "," } else { "" }));
        }
        s.push_str(&format!("  ]⟩{}\n", if i + 1 < types.len() { "," } else { "" }));
    }
    s.push_str("]\n\n");
    // the bare shape of every type, as numbers only: (type, [(variant, [(field name, field type)])]) - what the
    // hand-written models (wire format, reducer, traversals) are written against
    s.push_str("/-- The shape of the IR types as keys only: per type, its variants in declaration order, each with its\nfields' (name, type) keys in declaration order. Compared with the reviewed snapshot by `Tie.ir_shape_as_modelled`. -/\ndef shape : List (Nat × List (Nat × List (Nat × Nat))) := [\n");
    for (i, t) in types.iter().enumerate() {
        let vs: Vec<String> = t
            .variants
            .iter()
            .map(|v| format!("({}, [{}])", key(&v.name), v.fields.iter().map(|f| format!("({}, {})", key(&f.name), key(&f.ty))).collect::<Vec<_>>().join(", ")))
            .collect();
        s.push_str(&format!("  ({}, [{}]){}  -- {}\n", key(&t.name), vs.join(", "), if i + 1 < types.len() { "," } else { "" }, t.name));
    }
    s.push_str("]\n\n");
    s.push_str("/-- One arm of the `match self` of a traversal method: the variant it is for, how many of its\npattern positions are bound to a name, how many of those names the arm's body mentions, and\nwhether it ignores positions (`_`, `..`). -/\nstructure GArm where\n  variantKey : Nat\n  variant : String\n  bound : Nat\n  used : Nat\n  ignores : Bool\n\nstructure GMethod where\n  typeKey : Nat\n  ty : String\n  trait_ : String\n  methodKey : Nat\n  method : String\n  selfFieldKeys : List Nat\n  selfFields : List String\n  arms : List GArm\n\n");
    s.push_str("def traversals : List GMethod := [\n");
    for (i, m) in methods.iter().enumerate() {
        let arms: Vec<String> = m
            .arms
            .iter()
            .map(|a| {
                let bound = a.bindings.iter().filter(|b| *b != "_" && *b != "..").count();
                let ignores = a.wildcard || a.bindings.iter().any(|b| b == "_" || b == "..");
                format!("⟨{}, {}, {}, {}, {}⟩", key(&a.variant), lean_str(&a.variant), bound, a.used.len(), ignores)
            })
            .collect();
        s.push_str(&format!(
            "  ⟨{}, {}, {}, {}, {}, [{}], [{}], [{}]⟩{}\n",
            key(&m.ty),
            lean_str(&m.ty),
            lean_str(&m.tr),
            key(&m.method),
            lean_str(&m.method),
            m.self_fields.iter().map(|f| key(f).to_string()).collect::<Vec<_>>().join(", "),
            m.self_fields.iter().map(|f| lean_str(f)).collect::<Vec<_>>().join(", "),
            arms.join(", "),
            if i + 1 < methods.len() { "," } else { "" }
        ));
    }
    s.push_str("]\n\n");
    s.push_str("/-- Field names as keys, per struct type: what `selfFieldKeys` is compared with. -/\ndef fieldKey (name : String) (keys : List (String × Nat)) : Option Nat := (keys.find? (·.1 == name)).map (·.2)\n\n");
    s.push_str("def fieldKeys : List (Nat × List (Nat × Bool)) := [\n");
    let structs: Vec<&TypeDef> = types.iter().filter(|t| !t.is_enum).collect();
    for (i, t) in structs.iter().enumerate() {
        let fs: Vec<String> = t.variants[0].fields.iter().map(|f| format!("({}, {})", key(&f.name), type_idents(&f.ty).iter().any(|i| carriers.contains(i)))).collect();
        s.push_str(&format!("  ({}, [{}]){}\n", key(&t.name), fs.join(", "), if i + 1 < structs.len() { "," } else { "" }));
    }
    s.push_str("]\n\n");
    // every serde attribute and hand-written impl, as text
    let mut notes: Vec<String> = vec![];
    for t in &types {
        for a in &t.serde {
            notes.push(format!("{}: {}", t.name, a));
        }
        for m in &t.manual_impls {
            notes.push(format!("{}: impl {}", t.name, m));
        }
        for v in &t.variants {
            for a in &v.serde {
                notes.push(format!("{}::{}: {}", t.name, v.name, a));
            }
            for f in &v.fields {
                for a in &f.serde {
                    notes.push(format!("{}::{}.{}: {}", t.name, v.name, f.name, a));
                }
            }
        }
    }
    s.push_str(&format!("def serdeNotes : List String := [{}]\ndef serdeNoteKeys : List Nat := [{}]\n\n", notes.iter().map(|x| lean_str(x)).collect::<Vec<_>>().join(", "), notes.iter().map(|x| key(x).to_string()).collect::<Vec<_>>().join(", ")));
    // symbolic names for the keys the hand-written obligations mention
    let mut names: BTreeSet<String> = BTreeSet::new();
    for t in &types {
        names.insert(t.name.clone());
        for v in &t.variants {
            if !v.name.is_empty() {
                names.insert(v.name.clone());
            }
            for f in &v.fields {
                names.insert(f.name.clone());
            }
        }
    }
    for m in &methods {
        names.insert(m.method.clone());
        names.insert(m.ty.clone());
    }
    s.push_str("namespace K\n");
    for n in names.iter().filter(|n| n.chars().all(|c| c.is_alphanumeric() || c == '_') && n.chars().next().map(|c| c.is_alphabetic()).unwrap_or(false)) {
        s.push_str(&format!("def «{}» : Nat := {}\n", n, key(n)));
    }
    s.push_str("end K\n\n");
    s.push_str("structure GConst where\n  file : String\n  name : String\n  value : String\n\ndef constants : List GConst := [\n");
    for (i, (f, n, v)) in consts.iter().enumerate() {
        s.push_str(&format!("  ⟨{}, {}, {}⟩{}\n", lean_str(f), lean_str(n), lean_str(v), if i + 1 < consts.len() { "," } else { "" }));
    }
    s.push_str("]\n\n");
    // the same constants in a form the kernel can compare: numeric ones as numbers, every one as (name key, value key)
    s.push_str("namespace C\n");
    for (_, n, v) in consts.iter() {
        let digits: String = v.chars().filter(|c| *c != '_' && !c.is_whitespace()).collect();
        if !digits.is_empty() && digits.chars().all(|c| c.is_ascii_digit()) {
            s.push_str(&format!("def «{}» : Nat := {}\n", n, digits));
        }
    }
    s.push_str("end C\n\n");
    s.push_str(&format!("def constKeys : List (Nat × Nat) := [{}]\n\n", consts.iter().map(|(_, n, v)| format!("({}, {})", key(n), key(v))).collect::<Vec<_>>().join(", ")));
    s.push_str(&format!("/-- Directive names written by lowering (`cardano.rs`: `name: \"…\"`). -/\ndef directivesProduced : List String := [{}]\ndef directivesProducedKeys : List Nat := [{}]\n", produced.iter().map(|x| lean_str(x)).collect::<Vec<_>>().join(", "), produced.iter().map(|x| key(x).to_string()).collect::<Vec<_>>().join(", ")));
    s.push_str(&format!("/-- Directive names the compiler looks for (`compile/mod.rs`: `… .name … == \"…\"`). -/\ndef directivesConsumed : List String := [{}]\ndef directivesConsumedKeys : List Nat := [{}]\n\n", consumed.iter().map(|x| lean_str(x)).collect::<Vec<_>>().join(", "), consumed.iter().map(|x| key(x).to_string()).collect::<Vec<_>>().join(", ")));
    s.push_str("end Tx3.Gen\n");

    let j = json!({
        "serde_notes": notes,
        "types": types.iter().map(|t| json!({"name": t.name, "file": t.file, "enum": t.is_enum, "derives": t.derives,
            "variants": t.variants.iter().map(|v| json!({"name": v.name, "fields": v.fields.iter().map(|f| json!({"name": f.name, "ty": f.ty, "carries": type_idents(&f.ty).iter().any(|i| carriers.contains(i))})).collect::<Vec<_>>()})).collect::<Vec<_>>()})).collect::<Vec<_>>(),
        "traversals": methods.iter().map(|m| json!({"file": m.file, "ty": m.ty, "trait": m.tr, "method": m.method, "self_fields": m.self_fields,
            "arms": m.arms.iter().map(|a| json!({"variant": a.variant, "bindings": a.bindings, "used": a.used, "wildcard": a.wildcard})).collect::<Vec<_>>()})).collect::<Vec<_>>(),
        "constants": consts.iter().map(|(f, n, v)| json!({"file": f, "name": n, "value": v})).collect::<Vec<_>>(),
        "directives_produced": produced, "directives_consumed": consumed,
    });
    (s, j)
}
