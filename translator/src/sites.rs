//! Panic / cast / unchecked-arithmetic sites of one source file.

use crate::{fnv, tokens_of};
use std::collections::BTreeMap;
use syn::punctuated::Punctuated;
use syn::spanned::Spanned;
use syn::visit::{self, Visit};

pub struct Site {
    pub file_id: usize,
    pub file: String,
    pub func: String,
    pub kind: String,
    pub ord: usize,
    pub line: usize,
    pub text: String,
}

impl Site {
    pub fn key(&self) -> u64 {
        fnv(&format!("{}|{}|{}|{}", self.file, self.func, self.kind, self.ord))
    }
}

fn is_test_attr(attrs: &[syn::Attribute]) -> bool {
    attrs.iter().any(|a| {
        let p = a.path();
        if p.is_ident("test") {
            return true;
        }
        if p.is_ident("cfg") {
            let t = a.meta.to_token_stream_string();
            return t.contains("test");
        }
        false
    })
}

trait MetaStr {
    fn to_token_stream_string(&self) -> String;
}
impl MetaStr for syn::Meta {
    fn to_token_stream_string(&self) -> String {
        tokens_of(self)
    }
}

struct V<'a> {
    file_id: usize,
    file: &'a str,
    scope: Vec<String>,
    func: Option<String>,
    counters: BTreeMap<(String, String), usize>,
    out: Vec<Site>,
}

const PANIC_MACROS: [&str; 10] =
    ["panic", "todo", "unreachable", "unimplemented", "assert", "assert_eq", "assert_ne", "debug_assert", "debug_assert_eq", "debug_assert_ne"];
const INT_TYPES: [&str; 12] = ["u8", "u16", "u32", "u64", "u128", "usize", "i8", "i16", "i32", "i64", "i128", "isize"];

impl<'a> V<'a> {
    fn push(&mut self, kind: String, line: usize, text: String) {
        let func = self.func.clone().unwrap_or_else(|| "<item>".to_string());
        let c = self.counters.entry((func.clone(), kind.clone())).or_insert(0);
        let ord = *c;
        *c += 1;
        let text: String = text.chars().take(90).collect();
        self.out.push(Site { file_id: self.file_id, file: self.file.to_string(), func, kind, ord, line, text });
    }

    fn with_fn<F: FnOnce(&mut Self)>(&mut self, name: String, f: F) {
        let prev = self.func.take();
        let mut full = self.scope.join("::");
        if !full.is_empty() {
            full.push_str("::");
        }
        full.push_str(&name);
        // closures and nested fns stay attributed to the outer function
        self.func = Some(match prev.clone() {
            Some(p) => p,
            None => full,
        });
        f(self);
        self.func = prev;
    }

    fn visit_macro_args(&mut self, mac: &syn::Macro) {
        // most macros used in these files take comma-separated expressions (vec!, format!, write!, Ok(..)):
        // look inside them; a body that is not of that shape is skipped
        if let Ok(args) = mac.parse_body_with(Punctuated::<syn::Expr, syn::Token![,]>::parse_terminated) {
            for a in args.iter() {
                self.visit_expr(a);
            }
        }
    }
}

impl<'a, 'ast> Visit<'ast> for V<'a> {
    fn visit_item_mod(&mut self, m: &'ast syn::ItemMod) {
        if is_test_attr(&m.attrs) {
            return;
        }
        self.scope.push(m.ident.to_string());
        visit::visit_item_mod(self, m);
        self.scope.pop();
    }

    fn visit_item_impl(&mut self, i: &'ast syn::ItemImpl) {
        if is_test_attr(&i.attrs) {
            return;
        }
        let ty = tokens_of(&i.self_ty);
        let name = match &i.trait_ {
            Some((_, path, _)) => format!("<{} as {}>", ty, tokens_of(path)),
            None => ty,
        };
        self.scope.push(name);
        visit::visit_item_impl(self, i);
        self.scope.pop();
    }

    fn visit_item_trait(&mut self, t: &'ast syn::ItemTrait) {
        self.scope.push(format!("trait {}", t.ident));
        visit::visit_item_trait(self, t);
        self.scope.pop();
    }

    fn visit_item_fn(&mut self, f: &'ast syn::ItemFn) {
        if is_test_attr(&f.attrs) {
            return;
        }
        let name = f.sig.ident.to_string();
        self.with_fn(name, |s| visit::visit_item_fn(s, f));
    }

    fn visit_impl_item_fn(&mut self, f: &'ast syn::ImplItemFn) {
        if is_test_attr(&f.attrs) {
            return;
        }
        let name = f.sig.ident.to_string();
        self.with_fn(name, |s| visit::visit_impl_item_fn(s, f));
    }

    fn visit_trait_item_fn(&mut self, f: &'ast syn::TraitItemFn) {
        let name = f.sig.ident.to_string();
        self.with_fn(name, |s| visit::visit_trait_item_fn(s, f));
    }

    fn visit_expr_method_call(&mut self, e: &'ast syn::ExprMethodCall) {
        let m = e.method.to_string();
        if m == "unwrap" || m == "expect" || m == "unwrap_unchecked" {
            self.push(m, e.method.span().start().line, tokens_of(e));
        }
        visit::visit_expr_method_call(self, e);
    }

    fn visit_expr_index(&mut self, e: &'ast syn::ExprIndex) {
        self.push("index".into(), e.span().start().line, tokens_of(e));
        visit::visit_expr_index(self, e);
    }

    fn visit_expr_cast(&mut self, e: &'ast syn::ExprCast) {
        let ty = tokens_of(&e.ty);
        if INT_TYPES.contains(&ty.as_str()) {
            self.push(format!("as:{ty}"), e.span().start().line, tokens_of(e));
        }
        visit::visit_expr_cast(self, e);
    }

    fn visit_expr_binary(&mut self, e: &'ast syn::ExprBinary) {
        use syn::BinOp::*;
        let op = match e.op {
            Add(_) | AddAssign(_) => Some("+"),
            Sub(_) | SubAssign(_) => Some("-"),
            Mul(_) | MulAssign(_) => Some("*"),
            Div(_) | DivAssign(_) => Some("/"),
            Rem(_) | RemAssign(_) => Some("%"),
            Shl(_) | ShlAssign(_) => Some("<<"),
            _ => None,
        };
        if let Some(op) = op {
            self.push(format!("arith:{op}"), e.span().start().line, tokens_of(e));
        }
        visit::visit_expr_binary(self, e);
    }

    fn visit_expr_unary(&mut self, e: &'ast syn::ExprUnary) {
        if let syn::UnOp::Neg(_) = e.op {
            // a negated literal cannot overflow
            if !matches!(*e.expr, syn::Expr::Lit(_)) {
                self.push("arith:neg".into(), e.span().start().line, tokens_of(e));
            }
        }
        visit::visit_expr_unary(self, e);
    }

    fn visit_macro(&mut self, mac: &'ast syn::Macro) {
        let name = mac.path.segments.last().map(|s| s.ident.to_string()).unwrap_or_default();
        if PANIC_MACROS.contains(&name.as_str()) {
            self.push(format!("{name}!"), mac.span().start().line, tokens_of(mac));
        }
        self.visit_macro_args(mac);
    }
}

impl Site {
    /// 0 = can panic on its own, 1 = integer cast, 2 = unchecked arithmetic
    pub fn class(&self) -> usize {
        if self.kind.starts_with("as:") {
            1
        } else if self.kind.starts_with("arith:") {
            2
        } else {
            0
        }
    }
}

pub fn collect(file_id: usize, file: &str, ast: &syn::File) -> Vec<Site> {
    let mut v = V { file_id, file, scope: vec![], func: None, counters: BTreeMap::new(), out: vec![] };
    v.visit_file(ast);
    v.out
}
