#!/usr/bin/env python3
"""Translator: /repo/crates/tx3-lang/src/tx3.pest  ->  lean/Tx3Model/Gen/Grammar.lean + work/grammar.json.

Reads the subset of pest's grammar language the file uses (strings, `~`, `|`, `*`, `+`, `?`, `!`, `&`,
parentheses, rule references, the built-ins ANY / SOI / EOI / ASCII_*), with the rule modifiers
`_` (silent), `@` (atomic), `$` (compound atomic), `!` (non-atomic) and none.  Anything else makes the
translation fail loudly, so that an extension of the grammar the engine does not implement cannot be
translated into something else silently.
"""
import json
import re
import sys

BUILTIN_RANGES = {
    "ASCII_DIGIT": [("0", "9")],
    "ASCII_NONZERO_DIGIT": [("1", "9")],
    "ASCII_ALPHA_LOWER": [("a", "z")],
    "ASCII_ALPHA_UPPER": [("A", "Z")],
    "ASCII_ALPHA": [("a", "z"), ("A", "Z")],
    "ASCII_ALPHANUMERIC": [("0", "9"), ("a", "z"), ("A", "Z")],
    "ASCII_HEX_DIGIT": [("0", "9"), ("a", "f"), ("A", "F")],
}


class Err(Exception):
    pass


def tokenize(src):
    toks = []
    i = 0
    n = len(src)
    while i < n:
        c = src[i]
        if c.isspace():
            i += 1
        elif src.startswith("//", i):
            j = src.find("\n", i)
            i = n if j < 0 else j
        elif src.startswith("/*", i):
            j = src.find("*/", i)
            if j < 0:
                raise Err("unterminated comment")
            i = j + 2
        elif c == '"':
            j = i + 1
            out = []
            while True:
                if j >= n:
                    raise Err("unterminated string")
                if src[j] == "\\":
                    e = src[j + 1]
                    m = {"n": "\n", "t": "\t", "r": "\r", "\\": "\\", '"': '"', "'": "'", "0": "\0"}
                    if e not in m:
                        raise Err("unsupported escape \\" + e)
                    out.append(m[e])
                    j += 2
                elif src[j] == '"':
                    break
                else:
                    out.append(src[j])
                    j += 1
            toks.append(("str", "".join(out)))
            i = j + 1
        elif c == "'":
            m = re.match(r"'(\\.|[^'\\])'", src[i:])
            if not m:
                raise Err("bad char literal")
            ch = m.group(1)
            if ch.startswith("\\"):
                ch = {"n": "\n", "t": "\t", "r": "\r", "\\": "\\", "'": "'", '"': '"'}[ch[1]]
            toks.append(("chr", ch))
            i += m.end()
        elif src.startswith("..", i):
            toks.append(("op", ".."))
            i += 2
        elif c.isalpha() or c == "_":
            m = re.match(r"[A-Za-z_][A-Za-z0-9_]*", src[i:])
            w = m.group(0)
            # `_{` modifier vs identifier `_`
            if w == "_":
                toks.append(("op", "_"))
            else:
                toks.append(("id", w))
            i += len(w)
        elif c in "={}~|*+?!&()@$^":
            toks.append(("op", c))
            i += 1
        else:
            raise Err(f"unexpected character {c!r} at {i}")
    return toks


class P:
    def __init__(self, toks):
        self.t = toks
        self.i = 0

    def peek(self):
        return self.t[self.i] if self.i < len(self.t) else ("eof", "")

    def next(self):
        t = self.peek()
        self.i += 1
        return t

    def expect(self, kind, val=None):
        t = self.next()
        if t[0] != kind or (val is not None and t[1] != val):
            raise Err(f"expected {kind} {val}, got {t}")
        return t

    def rules(self):
        out = []
        while self.peek()[0] != "eof":
            name = self.expect("id")[1]
            self.expect("op", "=")
            mod = "normal"
            t = self.peek()
            if t == ("op", "_"):
                mod = "silent"; self.next()
            elif t == ("op", "@"):
                mod = "atomic"; self.next()
            elif t == ("op", "$"):
                raise Err("compound-atomic rules are not implemented by the engine")
            elif t == ("op", "!"):
                raise Err("non-atomic rules are not implemented by the engine")
            self.expect("op", "{")
            e = self.choice()
            self.expect("op", "}")
            out.append((name, mod, e))
        return out

    def choice(self):
        e = self.seq()
        alts = [e]
        while self.peek() == ("op", "|"):
            self.next()
            alts.append(self.seq())
        if len(alts) == 1:
            return e
        # right-nested, as pest's optimizer-free generator evaluates them (order is what matters)
        r = alts[-1]
        for a in reversed(alts[:-1]):
            r = {"k": "choice", "a": a, "b": r}
        return r

    def seq(self):
        e = self.term()
        items = [e]
        while self.peek() == ("op", "~"):
            self.next()
            items.append(self.term())
        if len(items) == 1:
            return e
        r = items[-1]
        for a in reversed(items[:-1]):
            r = {"k": "seq", "a": a, "b": r}
        return r

    def term(self):
        prefixes = []
        while self.peek() in (("op", "!"), ("op", "&")):
            prefixes.append(self.next()[1])
        e = self.node()
        while self.peek() in (("op", "*"), ("op", "+"), ("op", "?")):
            op = self.next()[1]
            e = {"k": {"*": "star", "+": "plus", "?": "opt"}[op], "e": e}
        if self.peek() == ("op", "{"):
            # only reachable as a repetition count `e{n}`: the rule body brace is consumed by rules()
            raise Err("bounded repetition is not implemented by the engine")
        for p in reversed(prefixes):
            e = {"k": "not" if p == "!" else "and", "e": e}
        return e

    def node(self):
        t = self.next()
        if t == ("op", "("):
            e = self.choice()
            self.expect("op", ")")
            return e
        if t[0] == "str":
            return {"k": "str", "s": t[1]}
        if t == ("op", "^"):
            raise Err("case-insensitive strings are not implemented by the engine")
        if t[0] == "chr":
            self.expect("op", "..")
            hi = self.expect("chr")[1]
            return {"k": "ranges", "r": [[t[1], hi]]}
        if t[0] == "id":
            w = t[1]
            if w == "ANY":
                return {"k": "any"}
            if w == "SOI":
                return {"k": "soi"}
            if w == "EOI":
                return {"k": "eoi"}
            if w in BUILTIN_RANGES:
                return {"k": "ranges", "r": [list(x) for x in BUILTIN_RANGES[w]]}
            if w.isupper() and w not in ("WHITESPACE", "COMMENT"):
                raise Err(f"built-in {w} is not implemented by the engine")
            return {"k": "ref", "n": w}
        raise Err(f"unexpected token {t}")


def resolve(e, index):
    k = e["k"]
    if k == "ref":
        if e["n"] not in index:
            raise Err("undefined rule " + e["n"])
        return {"k": "ref", "i": index[e["n"]], "n": e["n"]}
    if k in ("seq", "choice"):
        return {"k": k, "a": resolve(e["a"], index), "b": resolve(e["b"], index)}
    if k in ("star", "plus", "opt", "not", "and"):
        return {"k": k, "e": resolve(e["e"], index)}
    return e


def lchar(c):
    o = ord(c)
    if c.isalnum() or c in " _-+*/=<>.,:;#(){}[]!?|&@$%^~":
        return f"'{c}'"
    return f"(Char.ofNat {o})"


def lean_expr(e):
    k = e["k"]
    if k == "str":
        return "(.str [" + ", ".join(lchar(c) for c in e["s"]) + "])"
    if k == "any":
        return ".any"
    if k == "soi":
        return ".soi"
    if k == "eoi":
        return ".eoi"
    if k == "ranges":
        return "(.ranges [" + ", ".join(f"({lchar(a)}, {lchar(b)})" for a, b in e["r"]) + "])"
    if k == "ref":
        return f"(.ref {e['i']})"
    if k in ("seq", "choice"):
        return f"(.{k} {lean_expr(e['a'])} {lean_expr(e['b'])})"
    if k == "and":
        return f"(.not (.not {lean_expr(e['e'])}))"
    return f"(.{k} {lean_expr(e['e'])})"


def main():
    src_path, lean_path, json_path = sys.argv[1:4]
    src = open(src_path).read()
    rules = P(tokenize(src)).rules()
    names = [r[0] for r in rules]
    if len(set(names)) != len(names):
        raise Err("duplicate rule")
    index = {n: i for i, n in enumerate(names)}
    rules = [(n, m, resolve(e, index)) for n, m, e in rules]
    for need in ("WHITESPACE", "COMMENT", "program"):
        if need not in index:
            raise Err("grammar lacks " + need)
    out = []
    out.append("import Tx3Model.Peg\n")
    out.append("/-! GENERATED by /verif/translator/pest2lean.py from crates/tx3-lang/src/tx3.pest — do not edit. -/\n")
    out.append("namespace Tx3.Gen\nopen Tx3.Peg\n")
    out.append("def rules : Array Rule := #[")
    body = []
    for n, m, e in rules:
        body.append(f'  {{ name := "{n}", mode := .{m}, body := {lean_expr(e)} }}')
    out.append(",\n".join(body))
    out.append("]\n")
    out.append(f"def grammar : Grammar := {{ rules := rules, whitespace := {index['WHITESPACE']}, comment := {index['COMMENT']} }}\n")
    out.append(f"def programRule : Nat := {index['program']}\n")
    out.append("/-- The well-formedness certificate of this grammar, its rank and size bounds (`Tx3Proofs.C12Fuel`). -/")
    out.append("def cert : Cert := computeCert grammar")
    out.append("def rankBound : Nat := Peg.rankBound cert")
    out.append("def sizeBound : Nat := Peg.sizeBound grammar\n")
    out.append("/-- `Tx3Grammar::parse(rule, input)` with the budget that `C12_never_out_of_fuel` proves sufficient. -/")
    out.append("def parseTx3 (rule : Nat) (input : String) : Res :=")
    out.append("  parseF grammar (fuelNeeded rankBound sizeBound input.toList.length) rule input\n")
    out.append("end Tx3.Gen\n")
    text = "\n".join(out)
    try:
        old = open(lean_path).read()
    except FileNotFoundError:
        old = None
    if old != text:
        open(lean_path, "w").write(text)
    json.dump({"rules": [{"name": n, "mode": m, "body": e} for n, m, e in rules]}, open(json_path, "w"))
    print(f"translated {len(rules)} rules")


if __name__ == "__main__":
    try:
        main()
    except Err as e:
        print("TRANSLATION FAILED:", e)
        sys.exit(2)
